#!/venv/bin/python
"""Self-test: apply one seeded break (a string replacement in a scratch copy of the repo,
outside /repo and /verif), optionally confirm the pinned suite still passes, run the owning
quick check with VERIF_REPO pointing at the copy and expect exit 1 with a VIOLATION line.

usage: selftest/run.py [--suite] [--props C11,C20] [--names substr] [--also C04,C07]
"""
import argparse
import json
import os
import shutil
import subprocess
import sys
import tempfile
import time

HERE = os.path.dirname(os.path.abspath(__file__))
VERIF = os.path.dirname(HERE)
sys.path.insert(0, HERE)
from mutants import MUTANTS  # noqa


def make_copy(repo="/repo"):
    d = tempfile.mkdtemp(prefix="propka-mut-")
    subprocess.check_call(["rsync", "-a", "--exclude", ".git", "--exclude", "__pycache__",
                           "--exclude", "docs", repo + "/", d + "/"])
    return d


def apply(d, m):
    for (path, old, new) in m["edits"]:
        p = os.path.join(d, path)
        s = open(p).read()
        if s.count(old) < 1:
            raise RuntimeError("mutant %s: pattern not found in %s" % (m["name"], path))
        s = s.replace(old, new, 1 if m.get("once", True) else -1)
        open(p, "w").write(s)


def run_suite(d):
    env = dict(os.environ, PYTHONPATH=d, PYTHONDONTWRITEBYTECODE="1")
    p = subprocess.run(["/venv/bin/python", "-m", "pytest", "-q", "-x", "-p", "no:cacheprovider",
                        "--timeout=900", "--deselect", "tests/test_version.py::test_version"], cwd=d, env=env, capture_output=True, text=True)
    return p.returncode == 0, p.stdout[-300:]


def run_check(d, prop, tier="quick", seed="0"):
    env = dict(os.environ, VERIF_REPO=d, VERIF_SEED=seed, VERIF_SELFTEST="1", VERIF_NPROC=os.environ.get("SELFTEST_NPROC", "16"))
    t = time.time()
    p = subprocess.run([os.path.join(VERIF, "check"), prop, "--tier", tier], cwd=VERIF, env=env,
                       capture_output=True, text=True)
    return p.returncode, p.stdout, time.time() - t


def main():
    ap = argparse.ArgumentParser()
    ap.add_argument("--suite", action="store_true")
    ap.add_argument("--props", default="")
    ap.add_argument("--names", default="")
    ap.add_argument("--also", default="", help="other properties to run for the cross-firing audit")
    ap.add_argument("--jobs", type=int, default=1)
    ap.add_argument("--out", default=os.path.join(HERE, "last_results.json"))
    a = ap.parse_args()
    props = [p for p in a.props.split(",") if p]
    results = []
    # keep the real evidence files untouched
    evdir = os.path.join(VERIF, "evidence")
    backup = tempfile.mkdtemp(prefix="ev-backup-")
    if os.path.isdir(evdir):
        shutil.copytree(evdir, os.path.join(backup, "evidence"))
    try:
        todo = [m for m in MUTANTS if (not props or m["prop"] in props) and (not a.names or a.names in m["name"])]

        def one(m):
            d = make_copy()
            try:
                apply(d, m)
                suite = None
                if a.suite:
                    suite, tail = run_suite(d)
                rc, out, wall = run_check(d, m["prop"])
                lines = [l for l in out.splitlines() if l.startswith(("VIOLATION", "INCONCLUSIVE", "KNOWN"))]
                detail = [l for l in out.splitlines() if l.startswith("  class=")]
                caught = rc == 1 and any(l.startswith("VIOLATION property=%s" % m["prop"]) for l in lines)
                res = {"mutant": m["name"], "prop": m["prop"], "caught": caught, "rc": rc,
                       "suite_passes": suite, "wall": round(wall, 1), "lines": lines[:4],
                       "detail": [x[:200] for x in detail[:3]], "cross": {}}
                for other in [p for p in a.also.split(",") if p and p != m["prop"]]:
                    rc2, out2, _ = run_check(d, other)
                    res["cross"][other] = rc2
                print("%-5s %-45s %s rc=%d suite=%s %.0fs %s" % (
                    m["prop"], m["name"], "CAUGHT" if caught else "MISSED", rc, suite, wall,
                    (detail[0][:110] if detail else (lines[0][:110] if lines else ""))), flush=True)
                return res
            finally:
                shutil.rmtree(d, ignore_errors=True)
        from concurrent.futures import ThreadPoolExecutor
        with ThreadPoolExecutor(max_workers=a.jobs) as ex:
            results = list(ex.map(one, todo))
    finally:
        if os.path.isdir(os.path.join(backup, "evidence")):
            shutil.rmtree(evdir, ignore_errors=True)
            shutil.copytree(os.path.join(backup, "evidence"), evdir)
        shutil.rmtree(backup, ignore_errors=True)
        shutil.rmtree(os.path.join(VERIF, "replays"), ignore_errors=True)
    with open(a.out, "w") as fh:
        json.dump(results, fh, indent=1)
    missed = [r for r in results if not r["caught"]]
    print("%d mutants, %d caught, %d missed" % (len(results), len(results) - len(missed), len(missed)))
    return 1 if missed else 0


if __name__ == "__main__":
    sys.exit(main())
