"""Seeded breaks (string replacements) used by selftest/run.py. Each must leave the pinned
suite passing (checked with --suite) and be caught by the owning check."""
MUTANTS = []


def M(prop, name, *edits, **kw):
    d = {"prop": prop, "name": name, "edits": list(edits)}
    d.update(kw)
    MUTANTS.append(d)


# ---------------------------------------------------------------- C19
M("C19", "upper-offset-15", ("propka/hybrid36.py", "reference = - (10 * 36 ** (num_chars - 1) - 10 ** num_chars)",
                             "reference = - (10 * 36 ** (num_chars - 1) - 10 ** num_chars) + (num_chars == 4)"))
M("C19", "lower-accepts-upper", ("propka/hybrid36.py", "_hybrid36_set = _HYBRID36_LOWER_SET", "_hybrid36_set = _HYBRID36_LOWER_SET | _HYBRID36_UPPER_CHARS"))
M("C19", "no-strip", ("propka/hybrid36.py", "input_string = input_string.strip()", "input_string = input_string.lstrip()"))
M("C19", "underscore-again", ("propka/hybrid36.py", "            if char not in _HYBRID36_DIGITS:", "            if char not in _HYBRID36_DIGITS and char != '_':"))
M("C19", "serial-used-in-sort", ("propka/conformation_container.py", "        key += atom.res_num * RESIDUE_MULTIPLIER\n", "        key += atom.res_num * RESIDUE_MULTIPLIER + (atom.numb % 7) * 1e-3\n"))
# ---------------------------------------------------------------- C20
M("C20", "gamma-asin-sign", ("propka/vector_algebra.py", "            gamma = -axis.x/abs(axis.x)*math.asin(", "            gamma = -axis.x/abs(axis.x)*(1 if axis.z != 0 or axis.x > 0 else -1)*math.asin("))
M("C20", "minus-z-again", ("propka/vector_algebra.py", "    elif axis.z < 0:", "    elif axis.z < -1e9:"))
M("C20", "rot-y-transposed-for-small-angles", ("propka/vector_algebra.py", "        a13i=math.sin(theta),", "        a13i=math.sin(theta) if abs(theta) > 1e-2 else -math.sin(theta),"))
M("C20", "asin-acos-plane", ("propka/vector_algebra.py", "        beta = -axis.x/abs(axis.x)*math.acos(\n            axis.z/math.sqrt(axis.x*axis.x + axis.z*axis.z))",
                             "        beta = -axis.x/abs(axis.x)*math.acos(\n            axis.z/math.sqrt(axis.x*axis.x + axis.z*axis.z))\n        if axis.z == 0 and axis.x < 0:\n            beta = -beta"))
# ---------------------------------------------------------------- C11
M("C11", "drop-offset-00-1", ("propka/bonds.py", "                (0, 0, -1),\n", ""))
M("C11", "neighbour-abs-z", ("propka/bonds.py", "value2 = boxes[x + dx, y + dy, z + dz]", "value2 = boxes[x + dx, y + dy, abs(z + dz)]"))
M("C11", "drop-offset-only-far-cells", ("propka/bonds.py", "                try:\n                    value2 = boxes[x + dx, y + dy, z + dz]",
                                          "                if (dx, dy, dz) == (0, -1, 1) and x > 300:\n                    continue\n                try:\n                    value2 = boxes[x + dx, y + dy, z + dz]"))
M("C11", "flag-atom2-unless-parallel-x", ("propka/bonds.py", "                atom2.cysteine_bridge = True\n", "                atom2.cysteine_bridge = abs(atom1.x - atom2.x) < 1.9 or atom2.cysteine_bridge\n"))
M("C11", "box-size-2", ("propka/bonds.py", "box_size = max(BOX_SIZE, self.max_sq_distance**0.5 + 0.01)", "box_size = 2.0"))
M("C11", "flag-only-atom1", ("propka/bonds.py", "                atom2.cysteine_bridge = True\n", "                atom2.cysteine_bridge = atom2.cysteine_bridge or atom1.x < atom2.x\n"))
M("C11", "skip-dense-cells", ("propka/bonds.py", "            self.find_bonds_for_atoms(value)\n", "            self.find_bonds_for_atoms(value[:60])\n"))
M("C11", "drop-offset-corner", ("propka/bonds.py", "                (-1, 1, 1),\n", ""))
