"""Seeded breaks (string replacements) used by selftest/run.py. Each must leave the pinned
suite passing (checked with --suite) and be caught by the owning check."""
MUTANTS = []


def M(prop, name, *edits, **kw):
    d = {"prop": prop, "name": name, "edits": list(edits)}
    d.update(kw)
    MUTANTS.append(d)


# ---------------------------------------------------------------- C19
M("C19", "upper-offset-15", ("propka/hybrid36.py", "reference = - (10 * 36 ** (num_chars - 1) - 10 ** num_chars)",
                             "reference = - (10 * 36 ** (num_chars - 1) - 10 ** num_chars) + (num_chars == 4)"))
M("C19", "lower-accepts-upper", ("propka/hybrid36.py", "_hybrid36_set = _HYBRID36_LOWER_SET", "_hybrid36_set = _HYBRID36_LOWER_SET | _HYBRID36_UPPER_CHARS"))
M("C19", "no-strip", ("propka/hybrid36.py", "input_string = input_string.strip()", "input_string = input_string.lstrip()"))
M("C19", "underscore-again", ("propka/hybrid36.py", "            if char not in _HYBRID36_DIGITS:", "            if char not in _HYBRID36_DIGITS and char != '_':"))
M("C19", "serial-used-in-sort", ("propka/conformation_container.py", "        key += atom.res_num * RESIDUE_MULTIPLIER\n", "        key += atom.res_num * RESIDUE_MULTIPLIER + (atom.numb % 7) * 1e-3\n"))
# ---------------------------------------------------------------- C20
M("C20", "gamma-asin-sign", ("propka/vector_algebra.py", "            gamma = -axis.x/abs(axis.x)*math.asin(", "            gamma = -axis.x/abs(axis.x)*(1 if axis.z != 0 or axis.x > 0 else -1)*math.asin("))
M("C20", "minus-z-again", ("propka/vector_algebra.py", "    elif axis.z < 0:", "    elif axis.z < -1e9:"))
M("C20", "rot-y-transposed-for-small-angles", ("propka/vector_algebra.py", "        a13i=math.sin(theta),", "        a13i=math.sin(theta) if abs(theta) > 1e-2 else -math.sin(theta),"))
M("C20", "asin-acos-plane", ("propka/vector_algebra.py", "        beta = -axis.x/abs(axis.x)*math.acos(\n            axis.z/math.sqrt(axis.x*axis.x + axis.z*axis.z))",
                             "        beta = -axis.x/abs(axis.x)*math.acos(\n            axis.z/math.sqrt(axis.x*axis.x + axis.z*axis.z))\n        if axis.z == 0 and axis.x < 0:\n            beta = -beta"))
# ---------------------------------------------------------------- C11
M("C11", "drop-offset-00-1", ("propka/bonds.py", "                (0, 0, -1),\n", ""))
M("C11", "neighbour-abs-z", ("propka/bonds.py", "value2 = boxes[x + dx, y + dy, z + dz]", "value2 = boxes[x + dx, y + dy, abs(z + dz)]"))
M("C11", "drop-offset-only-far-cells", ("propka/bonds.py", "                try:\n                    value2 = boxes[x + dx, y + dy, z + dz]",
                                          "                if (dx, dy, dz) == (0, -1, 1) and x > 300:\n                    continue\n                try:\n                    value2 = boxes[x + dx, y + dy, z + dz]"))
M("C11", "flag-atom2-unless-parallel-x", ("propka/bonds.py", "                atom2.cysteine_bridge = True\n", "                atom2.cysteine_bridge = abs(atom1.x - atom2.x) < 1.9 or atom2.cysteine_bridge\n"))
M("C11", "box-size-2", ("propka/bonds.py", "box_size = max(BOX_SIZE, self.max_sq_distance**0.5 + 0.01)", "box_size = 2.0"))
M("C11", "flag-only-atom1", ("propka/bonds.py", "                atom2.cysteine_bridge = True\n", "                atom2.cysteine_bridge = atom2.cysteine_bridge or atom1.x < atom2.x\n"))
M("C11", "skip-dense-cells", ("propka/bonds.py", "            self.find_bonds_for_atoms(value)\n", "            self.find_bonds_for_atoms(value[:60])\n"))
M("C11", "drop-offset-corner", ("propka/bonds.py", "                (-1, 1, 1),\n", ""))

# ---------------------------------------------------------------- C01
M("C01", "o-double-prime-not-terminal", ("propka/input.py", "if  residue_name.strip() in ['OXT', 'O\\'\\'']:", "if  residue_name.strip() in ['OXT']:"))
M("C01", "summary-skips-negative-numbers", ("propka/output.py", "        for group in protein.conformations[conformation].groups:\n            if group.residue_type == residue_type:\n                str_ += \"{0:s}\".format(\n                    group.get_summary_string(",
                                             "        for group in protein.conformations[conformation].groups:\n            if group.residue_type == residue_type and group.atom.res_num >= 0:\n                str_ += \"{0:s}\".format(\n                    group.get_summary_string("))
M("C01", "three-letter-ions-ignored", ("propka/group.py", "    if atom.res_name.strip() in parameters.ions.keys():", "    if atom.res_name.strip() in parameters.ions.keys() and len(atom.res_name.strip()) < 3:"))
M("C01", "model-record-does-not-start-a-chain", ("propka/input.py", "            model = int(line[6:])\n            nterm_residue = 'next_residue'", "            model = int(line[6:])"))
M("C01", "short-ter-lines-ignored", ("propka/input.py", "        if tag == 'TER   ':", "        if tag == 'TER   ' and len(line) > 8:"))
M("C01", "nterm-model-pka-custom", ("propka/group.py", "                if key in self.parameters.custom_model_pkas.keys():", "                if key in self.parameters.custom_model_pkas.keys() or (self.atom.res_num > 999 and self.type == 'LYS' and not self.model_pka_set and self.parameters.model_pkas.update({'LYS': 10.4}) is None and False):"))
M("C01", "tyr-after-icode-skipped", ("propka/group.py", "    key = '{0:s}-{1:s}'.format(atom.res_name, atom.name)\n    if key in parameters.protein_group_mapping.keys():", "    key = '{0:s}-{1:s}'.format(atom.res_name, atom.name)\n    if key in parameters.protein_group_mapping.keys() and not (atom.icode.strip() and atom.res_name == 'TYR'):"))
# ---------------------------------------------------------------- C02
M("C02", "truediv-forgets-determinants", ("propka/group.py", "            for determinant in self.determinants[type_]:\n                determinant.value /= value\n", "            for determinant in self.determinants[type_][:1]:\n                determinant.value /= value\n"))
M("C02", "table-drops-fourth-row", ("propka/group.py", "        for line_number in range(number_of_lines):", "        for line_number in range(min(number_of_lines, 3)):"))
M("C02", "table-prints-local-in-volume-column", ("propka/group.py", "                    self.energy_volume, int(self.num_volume))", "                    self.energy_local if self.energy_local else self.energy_volume, int(self.num_volume))"))
M("C02", "no-recompute-after-sharing", ("propka/conformation_container.py", "        elif self.parameters.shared_determinants:\n", "        elif False:\n"))
M("C02", "summary-rounds-down", ("propka/group.py", "            \"   {g.label:>9s} {g.pka_value:8.2f} {g.model_pka:10.2f} \"", "            \"   {g.label:>9s} {pk:8.2f} {g.model_pka:10.2f} \""),
  ("propka/group.py", "        return fmt.format(g=self, type=ligand_type, penalty=penalty)", "        return fmt.format(g=self, type=ligand_type, penalty=penalty, pk=int(self.pka_value * 10) / 10.0 if self.pka_value > 14 else self.pka_value)"))
M("C02", "swap-display-no-recompute", ("propka/coupled_groups.py", "                # re-calculate pKa values\n                group1.calculate_total_pka()\n                group2.calculate_total_pka()", "                # re-calculate pKa values\n                group1.calculate_total_pka()"))
# ---------------------------------------------------------------- C03
M("C03", "coupled-systems-in-set-order", ("propka/conformation_container.py", "            ordered_system = [g for g in ordered_groups if id(g) in in_system]\n            listed = {id(g) for g in ordered_system}\n            ordered_system += [g for g in system if id(g) not in listed]\n            yield ordered_system", "            yield system"))
M("C03", "stream-input-loses-first-atom-line", ("propka/input.py", "        input_file.seek(0)\n        return contextlib.nullcontext(input_file)", "        input_file.seek(0)\n        if input_file.read(4) != 'ATOM':\n            input_file.seek(0)\n        return contextlib.nullcontext(input_file)"))
M("C03", "nccg-parameters-sticky", ("propka/coupled_groups.py", "        self.parameters = conformation.parameters\n", "        if self.parameters is None:\n            self.parameters = conformation.parameters\n"))
M("C03", "main-shares-chain-bookkeeping", ("propka/conformation_container.py", "        self.chains: List[str] = []\n", "        self.chains: List[str] = ConformationContainer._chains\n"),
  ("propka/conformation_container.py", "    def extract_groups(self):\n        \"\"\"Generate molecular groups needed for calculating pKa values.\"\"\"", "    _chains: List[str] = []\n\n    def extract_groups(self):\n        \"\"\"Generate molecular groups needed for calculating pKa values.\"\"\""))
# ---------------------------------------------------------------- C04
M("C04", "x-field-one-column-short", ("propka/atom.py", "            self.x = float(line[30:38].strip())", "            self.x = float(line[31:38].strip())"))
M("C04", "desolvation-skips-negative-octant", ("propka/energy.py", "        sq_dist = squared_distance(group, atom)\n        # desolvation", "        sq_dist = squared_distance(group, atom)\n        if atom.x < -600.0 and atom.y < -600.0:\n            continue\n        # desolvation"))
M("C04", "angle-factor-uses-absolute-origin", ("propka/energy.py", "        dx_21 = center[0] - atom2.x", "        dx_21 = center[0] - atom2.x if abs(center[0]) < 2000 else center[0]"))
M("C04", "planarity-depends-on-z", ("propka/ligand.py", "    margin = PLANARITY_MARGIN\n", "    margin = PLANARITY_MARGIN if atoms[0].z > -400 else 0.0\n"))
# ---------------------------------------------------------------- C05
M("C05", "max-distance-1e6-again", ("propka/calculations.py", "MAX_DISTANCE = math.inf", "MAX_DISTANCE = 1e6"))
M("C05", "desolvation-sees-first-3200-atoms", ("propka/energy.py", "    for atom in all_atoms:\n        # ignore atoms in the same residue", "    for atom in all_atoms[:3200]:\n        # ignore atoms in the same residue"))
M("C05", "solver-gives-up-on-large-systems", ("propka/iterative.py", "        if iteration == 10:", "        if iteration == 10 or (iteration == 2 and len(iteratives) > 120):"))
M("C05", "buried-count-normalised-by-size", ("propka/energy.py", "    group.buried = calculate_weight(parameters, group.num_volume)", "    group.buried = calculate_weight(parameters, group.num_volume if len(all_atoms) < 5000 else group.num_volume * 0.98)"))
# ---------------------------------------------------------------- C06
M("C06", "same-residue-test-case-insensitive-chain", ("propka/energy.py", "                and atom.chain_id == group.atom.chain_id):", "                and atom.chain_id.upper() == group.atom.chain_id.upper()):"))
M("C06", "label-uses-abs-number", ("propka/group.py", "            fmt = \"{g.residue_type:<3s}{a.res_num:>4d}{a.chain_id:>2s}\"\n            self.label = fmt.format(g=self, a=atom)", "            fmt = \"{g.residue_type:<3s}{n:>4d}{a.chain_id:>2s}\"\n            self.label = fmt.format(g=self, a=atom, n=abs(atom.res_num))"))
M("C06", "nterm-by-number-only-again", ("propka/input.py", "            residue_number = line[21: 27]", "            residue_number = line[22: 26]"))
# ---------------------------------------------------------------- C07
M("C07", "element-from-columns-77-78", ("propka/atom.py", "            if len(self.element) == 2:\n                self.element = '{0:1s}{1:1s}'.format(", "            if len(line) > 77 and line[76:78].strip().isalpha():\n                self.element = line[76:78].strip()\n            if len(self.element) == 2:\n                self.element = '{0:1s}{1:1s}'.format("))
M("C07", "atom-tagged-water-kept", ("propka/input.py", "            if line[17: 20] in ignore_residues:", "            if line[17: 20] in ignore_residues and tag == 'HETATM':"))
M("C07", "endmdl-acts-as-ter", ("propka/input.py", "        if tag == 'TER   ':", "        if tag in ('TER   ', 'ENDMDL'):"))
M("C07", "hydrogens-by-name-prefix", ("propka/input.py", "            if not (atom.element == 'H' and not keep_protons):", "            if not (atom.name.startswith('H') and not keep_protons):"))
M("C07", "occupancy-zero-atoms-skipped", ("propka/input.py", "            atom.terminal = terminal\n", "            atom.terminal = terminal\n            if atom.occ in ('0.00', '0.0'):\n                continue\n"))
M("C07", "protonate-all-before-pi-information", ("propka/hydrogens.py", "    # apply information on pi electrons\n    my_bond_maker.add_pi_electron_information(molecular_container)\n    # Protonate atoms\n    if molecular_container.options.protonate_all:\n        protonator = Protonate(verbose=False)\n        protonator.protonate(molecular_container)", "    # Protonate atoms\n    if molecular_container.options.protonate_all:\n        protonator = Protonate(verbose=False)\n        protonator.protonate(molecular_container)\n    # apply information on pi electrons\n    my_bond_maker.add_pi_electron_information(molecular_container)"))
# ---------------------------------------------------------------- C08
M("C08", "average-divides-by-all-again", ("propka/molecular_container.py", "            avr_group = avr_group / number_of_conformations", "            avr_group = avr_group / len(self.conformation_names)"))
M("C08", "first-conformation-groups-only", ("propka/molecular_container.py", "        for i, name in enumerate(self.conformation_names):\n            for group in self.conformations[name].get_groups_for_calculations():", "        for i, name in enumerate(self.conformation_names[:1]):\n            for group in self.conformations[name].get_groups_for_calculations():"))
M("C08", "find-group-ignores-type", ("propka/conformation_container.py", "                if group_.type == group.type:\n                    return group_", "                if group_.type == group.type or group_.titratable:\n                    return group_"))
M("C08", "topup-merges-residue-types", ("propka/conformation_container.py", "                    # don't merge different residue types, e.g. alt-loc mutant\n                    continue", "                    # don't merge different residue types, e.g. alt-loc mutant\n                    pass"))
M("C08", "topup-single-reference-again", ("propka/molecular_container.py", "            conf.top_up_from_atoms(ref_atoms)", "            conf.top_up_from_atoms({a.residue_label: a for a in reversed(ref_atoms)}.values())"))
M("C08", "iadd-skips-buried", ("propka/group.py", "        self.buried += other.buried\n", "        self.buried = max(self.buried, other.buried)\n"))
# ---------------------------------------------------------------- C09
M("C09", "charge-profile-columns-swapped", ("propka/molecular_container.py", "            charge_profile.append([ph, q_unfolded, q_folded])", "            charge_profile.append([ph, q_folded, q_unfolded])"))
M("C09", "charge-sums-ions", ("propka/conformation_container.py", "        unfolded = folded = 0.0\n        for group in self.get_titratable_groups():", "        unfolded = folded = 0.0\n        for group in self.get_titratable_groups() + self.get_ions():"))
M("C09", "pi-coarse-precision", ("propka/molecular_container.py", "            if max_ - min_ > precision:", "            if max_ - min_ > precision * 8:"))
M("C09", "charge-table-prints-folded-twice", ("propka/output.py", "                ph=ph, qm=q_mod, qp=q_pro)", "                ph=ph, qm=q_pro if abs(q_pro - q_mod) < 0.3 else q_mod, qp=q_pro)"))
# ---------------------------------------------------------------- C10
M("C10", "energy-scaling-138", ("propka/group.py", "UNK_PKA_SCALING = -1.36", "UNK_PKA_SCALING = -1.38"))
M("C10", "grid-accumulates-again", ("propka/lib.py", "    for i in range(num_steps + 1):\n        yield min_ + i * step", "    x = min_\n    while x <= max_:\n        yield x\n        x += step"))
M("C10", "window-lower-bound-exclusive", ("propka/output.py", "            if ph >= window[0] and ph <= window[1]:", "            if ph > window[0] and ph <= window[1]:"))
M("C10", "optimum-is-last-minimum-or-max", ("propka/molecular_container.py", "            opt = min(opt, point, key=lambda v: v[1])", "            opt = min(opt, point, key=lambda v: round(v[1], 0))"))
M("C10", "window-step-one-again", ("propka/output.py", "remainder > delta - Decimal(\"0.05\")", "remainder > Decimal(\"0.95\")"))
M("C10", "neutral-reference-leaks-into-low-ph", ("propka/group.py", "        if reference == 'neutral' and self.charge > 0.00:", "        if self.charge > 0.00 and (reference == 'neutral' or ph > 9.0):"))
# ---------------------------------------------------------------- C12
M("C12", "coo-center-without-oxygens", ("propka/group.py", "        if the_oxygens:\n            self.set_center(the_oxygens)\n        else:\n            self.set_center([self.atom])\n            # TODO - perhaps it would be better to ignore this group completely\n            # if the oxygen is missing from this residue?\n        self.set_interaction_atoms(the_oxygens, the_oxygens)\n\n\nclass HISGroup", "        self.set_center(the_oxygens)\n        self.set_interaction_atoms(the_oxygens, the_oxygens)\n\n\nclass HISGroup"))
M("C12", "hbond-no-none-guard", ("propka/energy.py", "    if closest_atom1 is None or closest_atom2 is None:\n        _LOGGER.warning(\n            'Side chain interaction failed for {0:s} and {1:s}'.format(\n                group1.label, group2.label))\n        return None", "    pass"))
M("C12", "cterm-needs-carbon", ("propka/group.py", "        if not the_carbons:\n            self.set_center([self.atom])", "        if False:\n            self.set_center([self.atom])"))
M("C12", "extension-case-sensitive", ("propka/input.py", "    if input_file_extension.lower() == '.pdb':", "    if input_file_extension == '.pdb':"))
M("C12", "precheck-raises-on-tiny-residue", ("propka/lib.py", "            # check number of atoms in residue\n            if len(res_atoms) != EXPECTED_ATOM_NUMBERS[res_name]:", "            # check number of atoms in residue\n            if len(res_atoms) == 1 and res_name == 'TRP':\n                raise KeyError(residue_label)\n            if len(res_atoms) != EXPECTED_ATOM_NUMBERS[res_name]:"))
M("C12", "amide-needs-both-atoms", ("propka/group.py", "        if not (the_oxygen and the_nitrogen):", "        if not (the_oxygen or the_nitrogen):"))
M("C12", "his-ring-required", ("propka/group.py", "        if ring_atoms:\n            self.set_center(ring_atoms)", "        if True:\n            self.set_center(ring_atoms)"))
# ---------------------------------------------------------------- C13
M("C13", "chain-filter-after-terminus-bookkeeping", ("propka/input.py", "            if chains and line[21] not in chains:\n                continue\n", ""),
  ("propka/input.py", "            # Identify the configuration\n", "            if chains and line[21] not in chains:\n                continue\n            # Identify the configuration\n"))
M("C13", "blank-chain-compared-as-underscore", ("propka/input.py", "            if chains and line[21] not in chains:", "            if chains and (line[21].strip() or '_') not in chains:"))
M("C13", "hetatm-kept-regardless-of-chain", ("propka/input.py", "            if chains and line[21] not in chains:", "            if chains and line[21] not in chains and tag == 'ATOM  ':"))
M("C13", "only-first-two-chains-honoured", ("propka/input.py", "            if chains and line[21] not in chains:", "            if chains and line[21] not in chains[:2]:"))
# ---------------------------------------------------------------- C14
M("C14", "titrate-only-ignores-icode", ("propka/conformation_container.py", "            if (atom.chain_id, atom.res_num, atom.icode) not in titrate_only:", "            if (atom.chain_id, atom.res_num) not in [t[:2] for t in titrate_only]:"))
M("C14", "unlisted-cys-still-reported", ("propka/conformation_container.py", "                if group.residue_type == 'CYS':\n                    group.exclude_cys_from_results = True", "                if group.residue_type == 'CYS' and atom.res_num < 0:\n                    group.exclude_cys_from_results = True"))
M("C14", "icode-parsed-away", ("propka/lib.py", "            inscode = resnum_str[-1]", "            inscode = \" \""))
M("C14", "unlisted-groups-dropped", ("propka/conformation_container.py", "        self.init_group(group)\n        self.groups.append(group)", "        self.init_group(group)\n        if self.molecular_container.options.titrate_only is not None and not group.titratable and group.type in ('ROH', 'AMD', 'TRP'):\n            return\n        self.groups.append(group)"))
M("C14", "negative-numbers-unlistable", ("propka/lib.py", "        resnum = int(resnum_str)\n", "        resnum = abs(int(resnum_str))\n"))
# ---------------------------------------------------------------- C15
M("C15", "swap-back-only-coulomb", ("propka/coupled_groups.py", "        # Swap back to original protonation state\n        self.swap_interactions([group1], [group2])", "        # Swap back to original protonation state\n        self.swap_interactions([group1], [group2], include_side_chain_hbs=abs(default_pka1 - default_pka2) < 3.0)"))
M("C15", "transfer-forgets-label", ("propka/coupled_groups.py", "        for det in from2to1:\n            det.label = label2", "        for det in from2to1:\n            det.label = det.label"))
M("C15", "early-return-before-swap-back", ("propka/coupled_groups.py", "        pka_shift2 = swapped_pka2 - default_pka2\n", "        pka_shift2 = swapped_pka2 - default_pka2\n        if abs(default_energy - swapped_energy) > 4 * self.parameters.max_free_energy_diff and return_on_fail:\n            return {'coupling_factor': -1.0}\n"))
M("C15", "one-sided-coupling", ("propka/group.py", "        if self not in other.non_covalently_coupled_groups:\n            other.non_covalently_coupled_groups.append(self)", "        if self not in other.non_covalently_coupled_groups and self.charge == other.charge:\n            other.non_covalently_coupled_groups.append(self)"))
M("C15", "star-only-for-acids", ("propka/group.py", "                if len(self.non_covalently_coupled_groups) > 0:\n                    str_ += '*'", "                if len(self.non_covalently_coupled_groups) > 0 and self.charge < 0:\n                    str_ += '*'"))
# ---------------------------------------------------------------- C16
M("C16", "base-pair-coulomb-positive", ("propka/determinants.py", "        new_determinant = Determinant(object2, -value)\n        object1.determinants['coulomb'].append(new_determinant)\n    else:\n        new_determinant = Determinant(object1, -value)", "        new_determinant = Determinant(object2, value)\n        object1.determinants['coulomb'].append(new_determinant)\n    else:\n        new_determinant = Determinant(object1, -value)"))
M("C16", "ion-determinant-sign", ("propka/determinants.py", "                    -ion_group.charge\n", "                    (-ion_group.charge if ion_group.charge > -2 else ion_group.charge)\n"))
M("C16", "pair-weight-not-clamped", ("propka/energy.py", "    weight = float(num_volume - num_min)/float(num_max - num_min)\n    weight = min(1.0, weight)", "    weight = float(num_volume - num_min)/float(num_max - num_min)"))
M("C16", "iterative-ion-pair-one-sided", ("propka/iterative.py", "            interaction = [object1, q2*coulomb_value]\n            annihilation[1] += -q2*coulomb_value\n            object2.determinants['coulomb'].append(interaction)", "            interaction = [object1, q2*coulomb_value]\n            annihilation[1] += -q2*coulomb_value\n            if object2.res_name != 'TYR':\n                object2.determinants['coulomb'].append(interaction)"))
M("C16", "backbone-sign-for-ligand-bases", ("propka/determinants.py", "                    value = (\n                        titratable_group.charge\n                        * hydrogen_bond_energy(", "                    value = (\n                        (titratable_group.charge if titratable_group.atom.type == 'atom' else abs(titratable_group.charge))\n                        * hydrogen_bond_energy("))
M("C16", "coo-coo-double-weight", ("propka/energy.py", "    value = value * (1.0 + weight)\n    return exception, value", "    value = value * (1.0 + 2 * weight)\n    return exception, value"))
M("C16", "desolvation-sign-for-sh", ("propka/energy.py", "    group.energy_volume = (\n        group.charge * parameters.desolvationPrefactor", "    group.energy_volume = (\n        (group.charge if group.type != 'SH' else -group.charge) * parameters.desolvationPrefactor"))
# ---------------------------------------------------------------- C17
M("C17", "sulfur-hydrogen-length", ("propka/protonate.py", "'Br': 1.41, 'I': 1.61, 'S': 1.35}", "'Br': 1.41, 'I': 1.61, 'S': 1.45}"))
M("C17", "tetrahedral-three-bonds-sign", ("propka/protonate.py", "            new_a = -avec1-avec2-avec3", "            new_a = -avec1-avec2+avec3"))
M("C17", "trp-not-protonated-when-buried-name", ("propka/group.py", "        # find the hydrogen on the nitrogen atom\n        PROTONATOR.protonate_atom(self.atom)", "        # find the hydrogen on the nitrogen atom\n        if self.atom.res_num % 7:\n            PROTONATOR.protonate_atom(self.atom)"))
M("C17", "second-amide-hydrogen-on-top", ("propka/protonate.py", "            new_a = -avec1 - avec2\n            new_a = self.set_bond_distance(new_a, atom.element)", "            new_a = -avec1 - avec2 if atom.name != 'ND2' else -avec1 - avec1\n            new_a = self.set_bond_distance(new_a, atom.element)"))
M("C17", "no-rounding-plus-offset", ("propka/protonate.py", "            z=round(position.z, 3),", "            z=round(position.z + (0.004 if atom.element == 'O' else 0.0), 3),"))
# ---------------------------------------------------------------- C18
M("C18", "matrix-add-skips-mirror-of-last", ("propka/parameters.py", "                self.dictionary[group][new_group] = value\n                self.dictionary[new_group][group] = value", "                self.dictionary[group][new_group] = value\n                if i < 20 or i == len(self.ordered_keys) - 1:\n                    self.dictionary[new_group][group] = value"))
M("C18", "pairwise-insert-one-direction", ("propka/parameters.py", "        self.insert(group1, group2, value)\n        self.insert(group2, group1, value)", "        self.insert(group1, group2, value)\n        if group1 <= group2:\n            self.insert(group2, group1, value)"))
M("C18", "squared-set-stores-plain", ("propka/parameters.py", "        setattr(instance, self._name_not_squared, value**0.5)", "        setattr(instance, self._name_not_squared, value**0.5 if self._name_not_squared != 'buried_cutoff' else value)"))
M("C18", "pairwise-default-ignored-after-first-pair", ("propka/parameters.py", "        except KeyError:\n            return self.default", "        except KeyError:\n            return self.default if item1 in self.dictionary or item2 not in self.dictionary else (0.0, 0.0)"))
M("C18", "op-row-renamed", ("propka/propka.cfg", "interaction_matrix OP  I N I N N I N N N N N N N N N N N I I N N N N N N N N I#SH", "interaction_matrix Op  I N I N N I N N N N N N N N N N N I I N N N N N N N N I#SH"))
M("C18", "cl-row-again", ("propka/propka.cfg", "interaction_matrix Cl  N", "interaction_matrix CL  N"))
