#!/bin/sh
# Offline setup: nothing to build or install. The harness uses only the standard library and
# numpy from /venv (the repository's own interpreter); it verifies both here.
set -e
cd "$(dirname "$0")"
/venv/bin/python -B -c "import numpy, sys; assert sys.version_info >= (3, 9); print('numpy', numpy.__version__)"
PYTHONPATH="${VERIF_REPO:-/repo}:$(pwd)" /venv/bin/python -B -c "import vp.env as e; print('propka at', e.assert_propka_from_repo())"
chmod +x check selftest/run.py 2>/dev/null || true
mkdir -p evidence
