#!/usr/bin/env python3
"""Regenerate MANIFEST.json from the table below (kept next to the checks it describes)."""
import json
import os

HERE = os.path.dirname(os.path.dirname(os.path.abspath(__file__)))

CHECKS = {
    "C11": ("contract on BondMaker.find_bonds_for_atoms_using_boxes vs O(n^2) reference over atom clouds, "
            "directed cell-boundary pairs (26 directions), CYS pairs and protein poses",
            "runtime contract + reference-model monitor",
            "4.C11", "numpy float64 arithmetic equals CPython float arithmetic; ties |d^2-t^2|<1e-9 not judged"),
    "C19": ("enumeration of the encoding order (quick: widths 1-3 complete, 4-5 boundaries+samples; thorough: all "
            "87.5M width-5 values) against a reference encoder, malformed strings against a reference grammar, "
            "contract on every decode call of pipeline runs, serial-rewrite metamorphic runs",
            "reference-model monitor + runtime contract", "4.C19",
            "reference encoder/grammar written from the format definition"),
    "C20": ("contract on rotate_vector_around_an_axis vs closed-form Rodrigues over all 26 zero/sign axis patterns, "
            "random triples and every call made by the hydrogen builder in pipeline runs",
            "runtime contract + closed-form oracle", "4.C20", "tolerance 1e-6*(1+|v|); axis component ratio <= 1e9"),
}
PENDING = {}


def main():
    props = [json.loads(l) for l in open(os.path.join(HERE, "properties.jsonl"))]
    checks = []
    na = []
    for p in props:
        pid = p["id"]
        if pid in CHECKS:
            text, tech, ref, note = CHECKS[pid]
            checks.append({
                "property_id": pid,
                "quick_cmd": "./check %s --tier quick" % pid,
                "thorough_cmd": "./check %s --tier thorough" % pid,
                "evidence_file": "evidence/%s.json" % pid,
                "replay_cmd_template": "./check %s --replay {path}" % pid,
                "engine": "vp",
                "level_claimed": {"category": "exploration", "text": text, "design_ref": ref},
                "level_note": note,
                "technique": tech,
            })
        else:
            na.append({"property_id": pid, "reason": PENDING.get(
                pid, "check not built yet in this round (runtime monitoring applies; see DESIGN.md section 4)")})
    man = {
        "version": 1,
        "setup_cmd": "./setup.sh",
        "hooks": {
            "guard": "PROPKA_VERIF",
            "enable": "no source hooks in /repo: monitors are attached from the harness by wrapping "
                      "(vp/contracts.py patch_everywhere); PROPKA_VERIF=1 is set in the worker processes only",
            "baseline_off_cmd": "cd /repo && /venv/bin/python -m pytest -ra -q -p no:cacheprovider --timeout=900 "
                                "--continue-on-collection-errors",
            "source_commits": [],
            "add_only": True,
        },
        "engines": [{"name": "vp", "path": "vp/", "serves_properties": sorted(CHECKS),
                     "kind_free_text": "runtime monitoring harness: worker processes run the real code from "
                                       "/repo's working tree under contracts, reference-model monitors and "
                                       "metamorphic two-run oracles; verdict held/violated/inconclusive"}],
        "checks": checks,
        "not_applicable": na,
        "notes": "exit 0 held, 1 VIOLATION, 2 INCONCLUSIVE. Known findings: known_findings.json. "
                 "Self-test: selftest/run.py. Seeded breaks from sub-agents: seeded/.",
    }
    with open(os.path.join(HERE, "MANIFEST.json"), "w") as fh:
        json.dump(man, fh, indent=1)
    print("MANIFEST.json: %d checks, %d not claimed" % (len(checks), len(na)))


if __name__ == "__main__":
    main()
