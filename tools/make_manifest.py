#!/usr/bin/env python3
"""Regenerate MANIFEST.json from the table below (kept next to the checks it describes)."""
import json
import os

HERE = os.path.dirname(os.path.dirname(os.path.abspath(__file__)))

CHECKS = {
    "C01": ("census of ionizable sites derived from the PDB text alone vs the groups reported by every conformation, "
            "AVR and the written summary/table, over built structures with varied terminus layouts, numbering, "
            "insertion codes, hetero groups, ions, identical models and -c / -i options",
            "reference-model monitor over boundary observations", "4.C01",
            "census oracle (oracles/census.py) written from the property text; ligand typing has no independent oracle"),
    "C02": ("arithmetic identity on every group of every conformation and AVR, contract at exit of every "
            "Group.calculate_total_pka call, determinant table and summary of the .pka text vs API values, across "
            "option sets and parameter files (remove_penalised_group/shared_determinants/common_charge_centre)",
            "runtime contract + boundary invariant + output-vs-API monitor", "4.C02", "text tolerance 0.005"),
    "C06": ("two-run metamorphic monitor: relabelled copy (monotone chain map, per-chain number shift, file-order "
            "renumbering of insertion codes) must give equal per-group records matched by atom position",
            "metamorphic two-run monitor", "4.C06", "float tolerance 1e-7; known finding icode-twins-merged"),
    "C07": ("two-run metamorphic monitor: ignorable hetero residues, hydrogens, junk records, unused columns, "
            "--protonate-all, -k with own hydrogens must leave every record (and the text) unchanged",
            "metamorphic two-run monitor", "4.C07", "-k feedback: hydrogens of a parent with a double contact (< 1.5 A to a second heavy atom) are left to be rebuilt"),
    "C09": ("contract on every Group.calculate_charge call and boundary checks of get_charge_profile / get_pi / charge "
            "table / pI line against an independent Henderson-Hasselbalch evaluation from the group records",
            "runtime contract + reference-model monitor", "4.C09", "pI tolerance = precision"),
    "C10": ("proton linkage by central differences and Simpson integrals of the real energy/charge functions, optimum "
            "and ranges recomputed from returned profiles, contract on every make_grid call, grid/window membership "
            "of printed rows", "runtime contract + numerical-identity monitor", "4.C10",
            "tolerances 2e-5*(1+N/10) and 1e-4*(1+N/10)"),
    "C11": ("contract on BondMaker.find_bonds_for_atoms_using_boxes vs O(n^2) reference over atom clouds, "
            "directed cell-boundary pairs (26 directions), CYS pairs and protein poses",
            "runtime contract + reference-model monitor",
            "4.C11", "numpy float64 arithmetic equals CPython float arithmetic; ties |d^2-t^2|<1e-9 not judged"),
    "C12": ("fault-style workload: random and systematic (every atom, pairs of atoms, keep-k) deletions from real "
            "structures; monitor: no exception, census of the truncated text equals the reported groups; reject "
            "inputs must raise ValueError only", "exception monitor + reference-model monitor", "4.C12",
            "census oracle; known finding protein-groups-covalently-coupled shared with C01"),
    "C13": ("two-run metamorphic monitor: (-c subset, full file) vs (no option, other chains' ATOM/HETATM lines "
            "deleted): bit-identical records and text", "metamorphic two-run monitor", "4.C13", "exact equality"),
    "C14": ("census of the restricted run vs the list, titratable flags, exact environment relations with the "
            "unrestricted run, all-residues == no option, non-existent entries have no effect",
            "reference-model + metamorphic monitor", "4.C14", "blank chains excluded (no option syntax)"),
    "C15": ("contract around every is_coupled_protonation_state_probability call (determinants and pKa restored "
            "exactly, swaps counted), analysis on/off comparison in one process, symmetry and star clauses on live "
            "groups", "runtime contract + on/off two-run monitor", "4.C15", "-d excluded from on/off comparison"),
    "C03": ("history checker: every call of a multi-call history in one process (single by path/stream, main with "
            "several files, options, cwd changes, heap junk) must equal the same call alone in a fresh interpreter "
            "(other PYTHONHASHSEED / PYTHONMALLOC); schedule-style injection of 16-aligned pseudo object addresses "
            "into Group/Iterative.__hash__ must not change any result",
            "offline history checker + address-layout injection", "4.C03", "log warnings and the order of internal partner lists are not results"),
    "C04": ("two-run metamorphic monitor under the 24 lattice rotations x integer milli-A translations: heavy-atom "
            "quantities exact (tie guard), keep-protons runs equal to 1e-7, program-built hydrogens equal within "
            "rounding and pKa differences decomposed by re-running with the mapped-back hydrogens",
            "metamorphic two-run monitor with exact lattice motions", "4.C04",
            "known finding rotor-hydrogen-frame-dependent; hetero groups tier 1 only"),
    "C05": ("four-run metamorphic monitor: each part alone vs inside both unions at exact minimum distances from "
            "25.001 A to the limits of the coordinate field; parts sharing chain identifiers, ligand kinds, parameter "
            "files, alternate-location labels, junction numbers; a tuned near-tie cluster", "metamorphic multi-run monitor", "4.C05",
            "known finding conformation-set-is-global (a distant part's alternate-location labels change a part's average)"),
    "C08": ("reference-model monitor: AVR vs the harness's own arithmetic mean over the conformations that report a "
            "group; top-up oracle from the harness's reading of MODEL/alt-loc records vs the atom lists of every "
            "conformation; identical-models and single-conformation relations",
            "reference-model monitor over boundary observations", "4.C08",
            "groups identified across conformations by (chain, number, icode, atom, type)"),
    "C16": ("contracts on radial_volume_desolvation, backbone_reorganization, hydrogen_bond_energy, coulomb_energy and "
            "the weight functions (sign by charge, bounds) on every call, boundary monitor on every determinant of "
            "every conformation, over workloads containing every ligand group type and every ion of propka.cfg",
            "runtime contracts + boundary invariant monitor", "4.C16", "bounds per conformation (AVR merges determinants)"),
    "C17": ("contract on every Protonate.add_proton call (one parent, tabulated X-H length within rounding, siblings "
            ">= 0.5 A), completeness of regular residues decided from the perceived bond graph, orientation clause "
            "by mapping hydrogens between lattice poses", "runtime contract + metamorphic monitor", "4.C17",
            "known finding rotor-hydrogen-frame-dependent"),
    "C18": ("invariants after every InteractionMatrix.add / PairwiseMatrix.add and on every get_value (symmetry), "
            "generated parameter files read by the real parser vs the generating table, squared cut-off consistency, "
            "exhaustive pairs of creatable group types under the shipped file",
            "runtime invariants + reference-model monitor", "4.C18", "creatable types read from the live Group classes"),
    "C19": ("enumeration of the encoding order (quick: widths 1-3 complete, 4-5 boundaries+samples; thorough: all "
            "87.5M width-5 values) against a reference encoder, malformed strings against a reference grammar, "
            "contract on every decode call of pipeline runs, serial-rewrite metamorphic runs",
            "reference-model monitor + runtime contract", "4.C19",
            "reference encoder/grammar written from the format definition"),
    "C20": ("contract on rotate_vector_around_an_axis vs closed-form Rodrigues over all 26 zero/sign axis patterns, "
            "random triples and every call made by the hydrogen builder in pipeline runs",
            "runtime contract + closed-form oracle", "4.C20", "tolerance 1e-6*(1+|v|); axis component ratio <= 1e9"),
}
PENDING = {}


def main():
    props = [json.loads(l) for l in open(os.path.join(HERE, "properties.jsonl"))]
    checks = []
    na = []
    for p in props:
        pid = p["id"]
        if pid in CHECKS:
            text, tech, ref, note = CHECKS[pid]
            checks.append({
                "property_id": pid,
                "quick_cmd": "./check %s --tier quick" % pid,
                "thorough_cmd": "./check %s --tier thorough" % pid,
                "evidence_file": "evidence/%s.json" % pid,
                "replay_cmd_template": "./check %s --replay {path}" % pid,
                "engine": "vp",
                "level_claimed": {"category": "exploration", "text": text, "design_ref": ref},
                "level_note": note,
                "technique": tech,
            })
        else:
            na.append({"property_id": pid, "reason": PENDING.get(
                pid, "check not built yet in this round (runtime monitoring applies; see DESIGN.md section 4)")})
    man = {
        "version": 1,
        "setup_cmd": "./setup.sh",
        "hooks": {
            "guard": "PROPKA_VERIF",
            "enable": "no source hooks in /repo: monitors are attached from the harness by wrapping "
                      "(vp/contracts.py patch_everywhere); PROPKA_VERIF=1 is set in the worker processes only",
            "baseline_off_cmd": "cd /repo && /venv/bin/python -m pytest -ra -q -p no:cacheprovider --timeout=900 "
                                "--continue-on-collection-errors",
            "source_commits": [],
            "add_only": True,
        },
        "engines": [{"name": "vp", "path": "vp/", "serves_properties": sorted(CHECKS),
                     "kind_free_text": "runtime monitoring harness: worker processes run the real code from "
                                       "/repo's working tree under contracts, reference-model monitors and "
                                       "metamorphic two-run oracles; verdict held/violated/inconclusive"}],
        "checks": checks,
        "not_applicable": na,
        "notes": "exit 0 held, 1 VIOLATION, 2 INCONCLUSIVE. Known findings: known_findings.json. "
                 "Self-test: selftest/run.py. Seeded breaks from sub-agents: seeded/.",
    }
    with open(os.path.join(HERE, "MANIFEST.json"), "w") as fh:
        json.dump(man, fh, indent=1)
    print("MANIFEST.json: %d checks, %d not claimed" % (len(checks), len(na)))


if __name__ == "__main__":
    main()
