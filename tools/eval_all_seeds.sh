#!/bin/sh
# usage: tools/eval_all_seeds.sh C09 [also-list] [base]   -> evaluates <base>-C09/_seed/{a,b}  (base default /tmp/seed)
p=$1; also=$2; base=${3:-/tmp/seed}
tagbase=$(basename $base)
for s in a b; do
  d=$base-$p/_seed/$s
  [ -f $d/patch.diff ] || continue
  /verif/tools/eval_seed.py $d $p --also "$also" > /tmp/eval-$tagbase-$p-$s.json 2>&1
  python3 -c "
import json,sys
d=json.load(open('/tmp/eval-$tagbase-$p-$s.json'))
print('$p/$s', 'applies',d.get('patch_applies'),'suite',d.get('suite_passes_with_patch'),'demo_ok',d.get('demo_ok'), 'caught_by_owner', d.get('caught_by_owner'))
for k,v in d.get('checks',{}).items(): print('   ',k,'rc',v['rc'], (v['lines'][1][:200] if len(v['lines'])>1 else (v['lines'][0][:200] if v['lines'] else '')))
"
done
