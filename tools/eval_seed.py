#!/venv/bin/python
"""Evaluate one seeded change (a directory with patch.diff and demo.py): in scratch copies of /repo
(outside /repo and /verif) confirm that the patch applies, the pinned suite still passes with it,
the demonstration passes without it and fails with it; then run the given checks against the
patched copy (VERIF_REPO) and report which ones raise VIOLATION.

usage: tools/eval_seed.py <seed dir> <owning property> [--also C01,C02,...] [--tier quick] [--seeds 0,1]
"""
import argparse
import json
import os
import shutil
import subprocess
import sys
import tempfile
import time

VERIF = os.path.dirname(os.path.dirname(os.path.abspath(__file__)))


def sh(cmd, cwd=None, env=None, timeout=3600):
    p = subprocess.run(cmd, cwd=cwd, env=env, capture_output=True, text=True, timeout=timeout)
    return p.returncode, p.stdout + p.stderr


def scratch():
    d = tempfile.mkdtemp(prefix="propka-seed-")
    subprocess.check_call(["rsync", "-a", "--exclude", ".git", "--exclude", "__pycache__", "--exclude", "docs",
                           "--exclude", "_seed", "/repo/", d + "/"])
    return d


def main():
    ap = argparse.ArgumentParser()
    ap.add_argument("seed")
    ap.add_argument("prop")
    ap.add_argument("--also", default="")
    ap.add_argument("--tier", default="quick")
    ap.add_argument("--seeds", default="0")
    ap.add_argument("--nproc", default="16")
    a = ap.parse_args()
    seed = os.path.abspath(a.seed)
    out = {"seed": seed, "prop": a.prop}
    clean, patched = scratch(), scratch()
    try:
        rc, o = sh(["patch", "-p1", "-i", os.path.join(seed, "patch.diff")], cwd=patched)
        out["patch_applies"] = rc == 0
        if rc != 0:
            out["patch_output"] = o[-400:]
            print(json.dumps(out, indent=1))
            return 1
        env = dict(os.environ, PYTHONDONTWRITEBYTECODE="1")
        rc, o = sh(["/venv/bin/python", "-m", "pytest", "-q", "-p", "no:cacheprovider", "--deselect",
                    "tests/test_version.py::test_version"], cwd=patched, env=dict(env, PYTHONPATH=patched))
        out["suite_passes_with_patch"] = rc == 0
        out["suite_tail"] = o.strip().splitlines()[-1] if o.strip() else ""
        demo = os.path.join(seed, "demo.py")
        for name, d in (("demo_on_clean", clean), ("demo_on_patched", patched)):
            # demos locate the worktree relative to their own path (<worktree>/_seed/x/demo.py)
            w = os.path.join(d, "_seed", "x")
            os.makedirs(w, exist_ok=True)
            shutil.copy(demo, os.path.join(w, "demo.py"))
            rc, o = sh(["/venv/bin/python", os.path.join(w, "demo.py")], cwd=d, env=dict(env, PYTHONPATH=d), timeout=1200)
            out[name] = {"rc": rc, "tail": o.strip()[-300:]}
            shutil.rmtree(os.path.join(d, "_seed"), ignore_errors=True)
        out["demo_ok"] = out["demo_on_clean"]["rc"] == 0 and out["demo_on_patched"]["rc"] != 0
        props = [a.prop] + [p for p in a.also.split(",") if p and p != a.prop]
        out["checks"] = {}
        scratch_out = tempfile.mkdtemp(prefix="evout-")       # evidence/replays of these runs never touch /verif's
        try:
            for p in props:
                for s in a.seeds.split(","):
                    t = time.time()
                    rc, o = sh([os.path.join(VERIF, "check"), p, "--tier", a.tier], cwd=VERIF,
                               env=dict(os.environ, VERIF_REPO=patched, VERIF_SEED=s, VERIF_NPROC=a.nproc, VERIF_OUT=scratch_out))
                    lines = [l for l in o.splitlines() if l.startswith(("VIOLATION", "  class=", "INCONCLUSIVE"))]
                    out["checks"]["%s@seed%s" % (p, s)] = {"rc": rc, "wall": round(time.time() - t, 1), "lines": [l[:260] for l in lines[:4]]}
        finally:
            shutil.rmtree(scratch_out, ignore_errors=True)
        out["caught_by_owner"] = any(v["rc"] == 1 for k, v in out["checks"].items() if k.startswith(a.prop + "@"))
    finally:
        shutil.rmtree(clean, ignore_errors=True)
        shutil.rmtree(patched, ignore_errors=True)
    print(json.dumps(out, indent=1))
    return 0


if __name__ == "__main__":
    sys.exit(main())
