#!/usr/bin/env python3
"""Which executable lines of /repo/propka does no quick tier reach? Runs the 20 quick checks with
VERIF_COVDUMP (one-shot sys.monitoring line events in the workers), writes evidence and replays to a
scratch directory, and prints the unreached lines per file. Usage: tools/coverage_union.py [scratch dir]"""
import json
import os
import subprocess
import sys
import tempfile

VERIF = os.path.dirname(os.path.dirname(os.path.abspath(__file__)))
sys.path.insert(0, VERIF)
from vp import coverage, env  # noqa: E402

out = sys.argv[1] if len(sys.argv) > 1 else tempfile.mkdtemp(prefix="vpcov-")
os.makedirs(out, exist_ok=True)
union = {}
for i in range(1, 21):
    pid = "C%02d" % i
    dump = os.path.join(out, pid + ".cov.json")
    e = dict(os.environ, VERIF_COVDUMP=dump, VERIF_OUT=os.path.join(out, "o"))
    subprocess.run([os.path.join(VERIF, "check"), pid, "--tier", "quick"], env=e, stdout=subprocess.DEVNULL, stderr=subprocess.DEVNULL)
    if os.path.exists(dump):
        for fn, lns in json.load(open(dump)).items():
            union.setdefault(fn, set()).update(lns)
root = os.path.join(env.REPO, "propka")
tot = hit = 0
for fn in sorted(os.listdir(root)):
    if not fn.endswith(".py"):
        continue
    lines = coverage.executable_lines(os.path.join(root, fn))
    miss = sorted(lines - union.get(fn, set()))
    tot += len(lines)
    hit += len(lines) - len(miss)
    print("%-28s %4d / %4d  unreached: %s" % (fn, len(lines) - len(miss), len(lines), " ".join(map(str, miss))))
print("total %d / %d" % (hit, tot))
