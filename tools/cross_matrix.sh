#!/bin/sh
# Cross-firing audit: every seeded change x every check (quick tier). Output: cross/<seed>.json
cd "$(dirname "$0")/.." || exit 2
mkdir -p cross
ALL=C01,C02,C03,C04,C05,C06,C07,C08,C09,C10,C11,C12,C13,C14,C15,C16,C17,C18,C19,C20
for d in seeded/C*-*; do
  n=$(basename $d); p=${n%-*}
  tools/eval_seed.py $d $p --also $ALL > cross/$n.json 2>&1
  python3 - <<PY
import json
d=json.load(open('cross/$n.json'))
fired=[k.split('@')[0] for k,v in d.get('checks',{}).items() if v['rc']==1]
odd=[k.split('@')[0] for k,v in d.get('checks',{}).items() if v['rc'] not in (0,1)]
print('$n', 'fired:', ' '.join(fired), ('| inconclusive: '+' '.join(odd)) if odd else '', flush=True)
PY
done
