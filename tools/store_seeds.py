#!/usr/bin/env python3
"""Copy the sub-agents' seeded changes from /tmp/seed-CXX/_seed/{a,b} into /verif/seeded/CXX-{a,b}/
(patch.diff, demo.py, notes.md) and write meta.json from the evaluation results in /tmp/eval-CXX-{a,b}.json."""
import json
import os
import shutil

import sys
OUT = os.path.join(os.path.dirname(os.path.dirname(os.path.abspath(__file__))), "seeded")
BASE = sys.argv[1] if len(sys.argv) > 1 else "/tmp/seed"          # e.g. /tmp/seed2
LETTERS = dict(zip("ab", sys.argv[2])) if len(sys.argv) > 2 else {"a": "a", "b": "b"}   # e.g. "cd"
for i in range(1, 21):
    pid = "C%02d" % i
    for v in ("a", "b"):
        src = "%s-%s/_seed/%s" % (BASE, pid, v)
        ev = "/tmp/eval-%s-%s-%s.json" % (os.path.basename(BASE), pid, v)
        if not (os.path.exists(os.path.join(src, "patch.diff")) and os.path.exists(ev)):
            continue
        e = json.load(open(ev))
        if not (e.get("patch_applies") and e.get("suite_passes_with_patch") and e.get("demo_ok")):
            print("SKIP (not confirmed)", pid, v, {k: e.get(k) for k in ("patch_applies", "suite_passes_with_patch", "demo_ok")})
            continue
        d = os.path.join(OUT, "%s-%s" % (pid, LETTERS[v]))
        os.makedirs(d, exist_ok=True)
        for f in ("patch.diff", "demo.py", "notes.md"):
            if os.path.exists(os.path.join(src, f)):
                shutil.copy(os.path.join(src, f), os.path.join(d, f))
        notes = open(os.path.join(src, "notes.md")).read() if os.path.exists(os.path.join(src, "notes.md")) else ""
        meta = {
            "property": pid,
            "origin": "fresh sub-agent given only the property text and a scratch worktree of /repo" + (
                " (second round: A = two cooperating edits, B = multi-step / interplay trigger)" if BASE.endswith("2") else
                " (third round: A = a change in a non-obvious place, B = a boundary case)" if BASE.endswith("3") else
                " (fourth round: A = shows only through a non-default option / API door, B = shows only on a rare kind of input)" if BASE.endswith("4") else
                " (fifth round: A = a change to data - configuration rows, tables, constants, defaults; B = a change to arithmetic that moves no printed number of the test files)" if BASE.endswith("5") else
                " (sixth round: A = a change about order - sort keys, iteration order, first/last match, order of steps; B = a change to fallbacks and error handling)" if BASE.endswith("6") else
                " (seventh round: A = looks like a performance optimisation, B = looks like a clean-up of Python idiom)" if BASE.endswith("7") else
                " (eighth round: A = a change in the input-parsing layer - record columns, parameter-file lines, option values; B = a change in the output / reporting layer)" if BASE.endswith("8") else
                " (ninth round: A = state, aliasing and lifetime - shared mutable objects, class-level vs instance attributes, containers that survive between calls; B = types and conversions - str / int / float keys and comparisons, int() vs round(), blank vs empty, label strings instead of fields)" if BASE.endswith("9") else
                " (tenth round: A = a mirror-image slip between twin code paths - group1 / group2, x / y / z, acid / base, inner / outer, folded / unfolded; B = degenerate geometry and numerics - exact zeros and ties, collinear or axis-aligned atoms, one-point ranges, clamps and guards)" if BASE.endswith("10") else
                " (eleventh round: A = a change in the code for ligands, ions and other hetero groups - typing, naming, bonds and bond paths, hydrogens, parameters; B = the sub-agent's own best idea for a slip that is hardest to detect)" if BASE.endswith("11") else
                " (twelfth round: A = a change where several conformations meet ligands, ions, chain ends, insertion codes or options; B = the sub-agent's own best idea)" if BASE.endswith("12") else ""),
            "needs_to_manifest": notes.strip().split("\n\n")[0][:1200],
            "confirmed_by_me": {
                "how": "tools/eval_seed.py: rsync copies of /repo outside /repo and /verif; patch applied with patch -p1; "
                       "pinned suite (test_version deselected: no .git in the copy); demo run in a clean and in a patched copy; "
                       "checks run with VERIF_REPO=<patched copy>",
                "patch_applies": e["patch_applies"],
                "suite_passes_with_patch": e["suite_passes_with_patch"],
                "suite_tail": e.get("suite_tail"),
                "demo_passes_on_clean": e["demo_on_clean"]["rc"] == 0,
                "demo_fails_on_patched": e["demo_on_patched"]["rc"] != 0,
                "demo_message": e["demo_on_patched"]["tail"][-300:],
            },
            "checks": {k: {"rc": c["rc"], "first": (c["lines"][1] if len(c["lines"]) > 1 else (c["lines"][0] if c["lines"] else ""))[:300]}
                       for k, c in e.get("checks", {}).items()},
            "caught_by_owner_check": e.get("caught_by_owner"),
        }
        with open(os.path.join(d, "meta.json"), "w") as fh:
            json.dump(meta, fh, indent=1)
        print("stored", pid, v, "caught" if meta["caught_by_owner_check"] else "MISSED")
