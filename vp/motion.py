"""Rigid motions on the 0.001 A lattice and the comparisons used by C04 / C17."""
import math

from . import obs, pdbio

CELL = 2510


def random_pose(rng, recs, allow_identity_rot=True):
    """(rot, trans) such that the moved structure fits the PDB coordinate field."""
    x0, y0, z0, x1, y1, z1 = pdbio.bbox(recs)
    for _ in range(50):
        rot = rng.choice(pdbio.ROTATIONS)
        kind = rng.choice(("zero", "milli", "cell", "big", "limit-low", "limit-high", "mixed"))
        if kind == "zero":
            t = [0, 0, 0]
        elif kind == "milli":
            t = [rng.choice((-2, -1, 1, 2, 3)) for _ in range(3)]
        elif kind == "cell":
            t = [CELL * rng.randrange(-40, 41) for _ in range(3)]
        elif kind == "big":
            t = [rng.choice((-1, 1)) * rng.randrange(100000, 900000) for _ in range(3)]
        else:
            t = [rng.randrange(-300000, 300000) for _ in range(3)]
        moved = pdbio.move(recs, rot, tuple(t))
        bx = pdbio.bbox(moved)
        if kind == "limit-low":
            t = [t[i] + (pdbio.FIELD_MIN - bx[i]) + rng.randrange(0, 3) for i in range(3)]
        elif kind == "limit-high":
            t = [t[i] + (pdbio.FIELD_MAX - bx[i + 3]) - rng.randrange(0, 3) for i in range(3)]
        moved = pdbio.move(recs, rot, tuple(t))
        if pdbio.fits(moved):
            return rot, tuple(t), kind, moved
    return pdbio.IDENTITY, (0, 0, 0), "zero", list(recs)


def key_mapper(rot, trans):
    """Maps an atom key (name, x, y, z) of the moved frame back to the original frame."""
    inv, tinv = pdbio.inverse_motion(rot, trans)

    def back(k):
        x, y, z = pdbio.apply_motion((k[1], k[2], k[3]), inv, tinv)
        return (k[0], x, y, z)
    return back, inv, tinv


def _tie(g, heavy_xyz, cut, eps=1e-6):
    """Is some heavy atom within eps (in d^2, A^2) of the cut-off sphere around the group centre?"""
    cx, cy, cz = g["center"]
    c2 = cut * cut
    for (x, y, z) in heavy_xyz:
        d2 = (x - cx) ** 2 + (y - cy) ** 2 + (z - cz) ** 2
        if abs(d2 - c2) < eps:
            return True
    return False


def _system(index, start, mapf):
    """Atoms (mapped with mapf) of the groups covalently coupled, directly or through others, to the
    group on atom `start`."""
    by_atom = {}
    for (ak, _t), g in index.items():
        by_atom.setdefault(tuple(g["akey"]), []).append(g)
    seen, todo = {start}, [start]
    while todo:
        k = todo.pop()
        for g in by_atom.get(k, ()):
            for c in g["cov"]:
                c = tuple(c)
                if c not in seen:
                    seen.add(c)
                    todo.append(c)
    return {mapf(k) for k in seen}


def compare_heavy(run0, runT, back, viol, counts, classes, hetero_pka=False):
    """Tier 1: everything that depends on heavy atoms only."""
    names = run0.rec["names"]
    if names != runT.rec["names"]:
        viol.append({"cls": "pose-changes-conformations", "msg": "%r vs %r" % (names, runT.rec["names"])})
        return
    for name in names:
        c0, cT = run0.rec["confs"][name], runT.rec["confs"][name]
        # bonds between heavy atoms
        b0 = set(map(lambda p: tuple(map(tuple, p)), c0["bonds"]))
        bT = set()
        for p in cT["bonds"]:
            k1, k2 = back(tuple(p[0])), back(tuple(p[1]))
            bT.add((k1, k2) if k1 <= k2 else (k2, k1))
        counts["bond_sets_compared"] = counts.get("bond_sets_compared", 0) + 1
        counts["bonds_compared"] = counts.get("bonds_compared", 0) + len(b0)
        if b0 != bT:
            only0 = sorted(b0 - bT)[:2]
            onlyT = sorted(bT - b0)[:2]
            viol.append({"cls": "pose-changes-bonds", "msg": "%s: bonds only in the original frame %r, only in the moved frame %r" % (name, only0, onlyT)})
        heavy_xyz = [(h["akey"][1] / 1000.0, h["akey"][2] / 1000.0, h["akey"][3] / 1000.0) for h in c0["heavy"]]
        adj = {}
        for (k1, k2) in b0:
            adj.setdefault(k1, set()).add(k2)
            adj.setdefault(k2, set()).add(k1)

        def in_ring(k, limit=10):
            """Is the atom on a cycle of the heavy-atom bond graph (length <= limit)?"""
            nb = list(adj.get(k, ()))
            for i, start in enumerate(nb):
                seen = {k, start}
                frontier = [start]
                for _ in range(limit - 1):
                    nxt = []
                    for x in frontier:
                        for y in adj.get(x, ()):
                            if y in nb[i + 1:] and x != start or (y in nb and y != start and x != start):
                                return True
                            if y not in seen:
                                seen.add(y)
                                nxt.append(y)
                    frontier = nxt
            return False
        i0, _ = obs.index_groups(c0)
        iT, _ = obs.index_groups(cT, keyf=lambda g: (back(tuple(g["akey"])), g["type"]))
        # ligand groups that exist in one frame only because of ring typing (a known mechanism): with
        # common charge centres their coupled partners are centred differently as a consequence
        ring_only = {k[0] for k, g in i0.items() if k not in iT and g["aid"][0] != "atom" and g["type"] != "ION" and in_ring(k[0])}
        ring_only |= {k[0] for k, h in iT.items() if k not in i0 and h["aid"][0] != "atom" and h["type"] != "ION" and in_ring(k[0])}
        for k, g in i0.items():
            protein_or_ion = g["aid"][0] == "atom" or g["type"] == "ION"
            if k not in iT:
                if protein_or_ion:
                    viol.append({"cls": "pose-changes-groups", "msg": "%s: group %s (%s) missing in the moved frame" % (name, g["label"], g["type"])})
                else:
                    # ligand typing (bond graph + planarity) depends on heavy atoms only
                    ring = in_ring(tuple(g["akey"]))
                    viol.append({"cls": "ligand-ring-typing-frame-dependent" if ring else "pose-changes-ligand-groups",
                                 "msg": "%s: ligand group %s (%s%s) missing in the moved frame" % (name, g["label"], g["type"], ", ring atom" if ring else "")})
                continue
            h = iT[k]
            counts["heavy_groups_compared"] = counts.get("heavy_groups_compared", 0) + 1
            for fld in ("type", "rtype", "charge", "model_pka", "bridge", "titratable"):
                if g[fld] != h[fld] and protein_or_ion:
                    viol.append({"cls": "pose-changes-groups", "msg": "%s: %s %s %r vs %r" % (name, g["label"], fld, g[fld], h[fld])})
            bad = []
            if g["n_vol"] != h["n_vol"]:
                bad.append(("n_vol", g["n_vol"], h["n_vol"], 15.0))
            if abs(g["buried"] - h["buried"]) > 1e-7:
                bad.append(("buried", g["buried"], h["buried"], 15.0))
            if abs(g["E_vol"] - h["E_vol"]) > 1e-7:
                bad.append(("E_vol", g["E_vol"], h["E_vol"], 20.0))
            if abs(g["E_loc"] - h["E_loc"]) > 1e-7:
                bad.append(("E_loc", g["E_loc"], h["E_loc"], 15.0))
            for (fld, a, b, cut) in bad:
                if _tie(g, heavy_xyz, 15.0) or _tie(g, heavy_xyz, 20.0):
                    counts["tie_sensitive_groups"] = counts.get("tie_sensitive_groups", 0) + 1
                    break
                ncarb = sum(1 for nb in adj.get(tuple(g["akey"]), ()) if nb[0].startswith("C"))
                if g.get("terminal") == "C-" and ncarb >= 2:
                    # the terminal oxygen is bonded to two carbons (distorted geometry): the group
                    # is centred with whichever carbon comes first in the bond list
                    viol.append({"cls": "cterm-carbon-choice-order-dependent", "msg": "%s: %s (terminal oxygen bonded to %d carbons) %s %.6g vs %.6g in the moved frame" % (
                        name, g["label"], ncarb, fld, a, b)})
                    break
                sys0, sysT = _system(i0, tuple(g["akey"]), lambda c: c), _system(iT, tuple(h["akey"]), back)
                if not protein_or_ion and (g.get("ccc") or h.get("ccc")) and (sys0 ^ sysT) and (sys0 ^ sysT) <= ring_only:
                    viol.append({"cls": "ligand-ring-typing-frame-dependent", "msg": "%s: %s shares a common charge centre with ring group(s) %r that exist in one frame only: %s %.6g vs %.6g" % (
                        name, g["label"], sorted(sys0 ^ sysT)[:2], fld, a, b)})
                    break
                viol.append({"cls": "pose-changes-desolvation", "msg": "%s: %s %s %.9g vs %.9g in the moved frame" % (name, g["label"], fld, a, b)})
        for k, h in iT.items():
            if k not in i0:
                if h["aid"][0] == "atom" or h["type"] == "ION":
                    cls = "pose-changes-groups"
                else:
                    cls = "ligand-ring-typing-frame-dependent" if in_ring(k[0]) else "pose-changes-ligand-groups"
                viol.append({"cls": cls, "msg": "%s: group %s (%s) only in the moved frame" % (name, h["label"], h["type"])})


def compare_hydrogens(run0, runT, back_xyz, back_key, viol, counts, only_protein=False, exclude=None):
    """Tier 3a / C17 orientation clause: hydrogen positions agree after mapping back, up to
    rounding (0.001 A per coordinate). back_xyz maps float coordinates (A) to the original frame."""
    worst = 0.0
    rotors = 0
    for name in run0.rec["names"]:
        degree = {}
        for (k1, k2) in run0.rec["confs"][name]["bonds"]:
            degree[tuple(k1)] = degree.get(tuple(k1), 0) + 1
            degree[tuple(k2)] = degree.get(tuple(k2), 0) + 1
        h0 = {}
        for h in run0.rec["confs"][name]["hydrogens"]:
            if h["parents"]:
                h0.setdefault(tuple(h["parents"][0]), []).append(h)
        hT = {}
        for h in runT.rec["confs"][name]["hydrogens"]:
            if h["parents"]:
                hT.setdefault(back_key(tuple(h["parents"][0])), []).append(h)
        for parent in set(h0) | set(hT):
            a = h0.get(parent, [])
            b = hT.get(parent, [])
            if only_protein and a and a[0]["type"] != "atom":
                continue
            if only_protein and b and b[0]["type"] != "atom":
                continue
            if exclude and exclude(a or b):
                counts["hydrogens_excluded"] = counts.get("hydrogens_excluded", 0) + len(a)
                continue
            if len(a) != len(b):
                viol.append({"cls": "pose-changes-hydrogen-count", "msg": "%s: parent %r has %d hydrogens, %d in the moved frame" % (name, parent, len(a), len(b))})
                continue
            used = set()
            for ha in a:
                counts["hydrogens_compared"] = counts.get("hydrogens_compared", 0) + 1
                best, bi = None, None
                for i, hb in enumerate(b):
                    if i in used:
                        continue
                    p = back_xyz(hb["xyz"])
                    d = max(abs(p[j] - ha["xyz"][j]) for j in range(3))
                    if best is None or d < best:
                        best, bi = d, i
                used.add(bi)
                worst = max(worst, best)
                if best > 0.001 + 1e-9:
                    planar_amine = parent[0] in ("NH1", "NH2", "ND2", "NE2") and any(
                        degree.get(tuple(k2 if tuple(k1) == tuple(parent) else k1), 0) >= 3
                        for (k1, k2) in run0.rec["confs"][name]["bonds"] if tuple(parent) in (tuple(k1), tuple(k2)))
                    if degree.get(parent, 0) <= 1 and not planar_amine:
                        # a parent with a single heavy neighbour: the builder picks the rotamer with
                        # Vector.orthogonal(), which depends on the coordinate frame
                        rotors += 1
                        viol.append({"cls": "rotor-hydrogen-frame-dependent", "msg": "%s: hydrogen %s on %r (one heavy neighbour) moves by %.4f A when the frame changes" % (
                            name, ha["name"], parent, best), "detail": {"parent_degree": degree.get(parent, 0)}})
                    else:
                        viol.append({"cls": "pose-changes-hydrogen-position", "msg": "%s: hydrogen %s on %r (%d heavy neighbours) moves by %.4f A (per coordinate) when the frame changes" % (
                            name, ha["name"], parent, degree.get(parent, 0), best)})
    counts["rotor_hydrogens_moved"] = counts.get("rotor_hydrogens_moved", 0) + rotors
    return worst


def float_back(rot, trans):
    inv, tinv = pdbio.inverse_motion(rot, trans)

    def f(xyz):
        m = tuple(int(round(v * 1000.0)) for v in xyz)
        x, y, z = pdbio.apply_motion(m, inv, tinv)
        return (x / 1000.0, y / 1000.0, z / 1000.0)
    return f


def max_pka_difference(run0, runT, back):
    """Largest |delta| over pKa and determinant values of matched groups; and count of
    structural differences (missing groups / determinants count as inf)."""
    worst = 0.0
    for name in list(run0.rec["names"]) + ["AVR"]:
        i0, _ = obs.index_groups(run0.rec["confs"][name])
        iT, _ = obs.index_groups(runT.rec["confs"][name], keyf=lambda g: (back(tuple(g["akey"])), g["type"]))
        for k, g in i0.items():
            h = iT.get(k)
            if h is None:
                return float("inf")
            worst = max(worst, abs(g["pka"] - h["pka"]))
            d0 = obs.det_multiset(g)
            dT = obs.det_multiset(h, back)
            for kk in set(d0) | set(dT):
                worst = max(worst, abs(d0.get(kk, 0.0) - dT.get(kk, 0.0)))
    return worst
