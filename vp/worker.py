"""Worker process: runs the cases of one shard against the real code with the monitors on."""
import json
import sys
import time
import traceback


def main(argv):
    pid, shard_path, out_path = argv[1:4]
    from . import env
    env.assert_propka_from_repo()
    import importlib
    mod = importlib.import_module("vp.props.%s" % pid.lower())
    with open(shard_path) as fh:
        shard = json.load(fh)
    tier = shard["tier"]
    from . import coverage
    cov = coverage.start(env.REPO) if shard.get("coverage", True) else False
    if hasattr(mod, "setup"):
        mod.setup(tier)
    with open(out_path, "w") as out:
        for case in shard["cases"]:
            t0 = time.time()
            try:
                res = mod.run_case(case, tier)
            except BaseException as e:  # harness failure: inconclusive, never a violation
                if isinstance(e, KeyboardInterrupt):
                    raise
                res = {"harness_error": traceback.format_exc()}
            res.setdefault("id", case.get("id"))
            res["wall"] = round(time.time() - t0, 3)
            out.write(json.dumps(res, default=str) + "\n")
            out.flush()
        if cov:
            out.write(json.dumps({"coverage_record": coverage.hits()}) + "\n")
    return 0


if __name__ == "__main__":
    sys.exit(main(sys.argv))
