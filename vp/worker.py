"""Worker process: runs the cases of one shard against the real code with the monitors on."""
import json
import os
import sys
import time
import traceback


def main(argv):
    pid, shard_path, out_path = argv[1:4]
    from . import env
    env.assert_propka_from_repo()
    import importlib
    mod = importlib.import_module("vp.props.%s" % pid.lower())
    with open(shard_path) as fh:
        shard = json.load(fh)
    tier = shard["tier"]
    from . import coverage
    cov = coverage.start(env.REPO) if shard.get("coverage", True) else False
    if hasattr(mod, "setup"):
        mod.setup(tier)
    import signal

    class CaseTimeout(Exception):
        pass

    def on_alarm(signum, frame):
        raise CaseTimeout()
    # a generous wall-clock limit per case: the ring search of the package needs exponential time on densely
    # bonded hetero atoms; a case that runs into the limit is neither held nor violated (it is counted, and the
    # check stays conclusive as long as such cases are rare)
    default = 300 if tier == "quick" else 900
    limit = int(getattr(mod, "CASE_TIME_LIMIT", {}).get(tier, default)) if isinstance(getattr(mod, "CASE_TIME_LIMIT", None), dict) else default
    signal.signal(signal.SIGALRM, on_alarm)
    with open(out_path, "w") as out:
        for case in shard["cases"]:
            t0 = time.time()
            try:
                signal.alarm(limit)
                res = mod.run_case(case, tier)
                signal.alarm(0)
            except CaseTimeout:
                res = {"violations": [], "nontrivial": False, "digest": "timeout:%s" % case.get("id"), "counts": {"cases_over_the_time_limit": 1},
                       "classes": ["case-over-the-time-limit"], "sample": {"case": case, "time_limit_s": limit}, "evals": 0,
                       "inconclusive": "the case ran into the %d s wall-clock limit" % limit}
                try:
                    os.chdir(os.path.dirname(os.path.abspath(out_path)))
                except OSError:
                    pass
            except BaseException as e:  # harness failure: inconclusive, never a violation
                signal.alarm(0)
                if isinstance(e, KeyboardInterrupt):
                    raise
                res = {"harness_error": traceback.format_exc()}
            res.setdefault("id", case.get("id"))
            res["wall"] = round(time.time() - t0, 3)
            out.write(json.dumps(res, default=str) + "\n")
            out.flush()
        if cov:
            out.write(json.dumps({"coverage_record": coverage.hits()}) + "\n")
    return 0


if __name__ == "__main__":
    sys.exit(main(sys.argv))
