"""Shard cases over worker subprocesses, aggregate, classify against the committed
known findings, write evidence and replays, print the verdict (DESIGN 2.2, 2.3)."""
import hashlib
import importlib
import json
import os
import shutil
import subprocess
import sys
import tempfile
import time

from . import env

EXIT_HELD, EXIT_VIOLATED, EXIT_INCONCLUSIVE = 0, 1, 2
COVERAGE = {}


def dump_coverage():
    """VERIF_COVDUMP=<file>: all lines of the package reached by this run (tools/coverage_union.py)."""
    path = os.environ.get("VERIF_COVDUMP")
    if path:
        with open(path, "w") as fh:
            json.dump({k: sorted(v) for k, v in COVERAGE.items()}, fh)


def anchor_coverage(pid):
    """Lines of the property's anchor files reached by this run's workers (one-shot
    sys.monitoring LINE events), as {file: {reached, total}}."""
    from . import coverage
    out = {}
    try:
        props = [json.loads(l) for l in open(os.path.join(env.VERIF, "properties.jsonl"))]
        files = next(p["anchors"]["files"] for p in props if p["id"] == pid)
    except Exception:
        return out
    for f in files:
        if not f.endswith(".py"):
            continue
        rel = f.split("propka/", 1)[-1]
        path = os.path.join(env.REPO, "propka", rel)
        if not os.path.exists(path):
            continue
        total = coverage.executable_lines(path)
        reached = COVERAGE.get(rel, set()) & total
        out[f] = {"reached": len(reached), "total": len(total)}
    return out


def load_known():
    path = os.path.join(env.VERIF, "known_findings.json")
    if not os.path.exists(path):
        return {"findings": [], "fixed": []}
    with open(path) as fh:
        return json.load(fh)


def digest(obj):
    return hashlib.sha1(json.dumps(obj, sort_keys=True, default=str).encode()).hexdigest()[:16]


def prop_module(pid):
    return importlib.import_module("vp.props.%s" % pid.lower())


def _spawn(pid, shard_path, out_path, hashseed="0", extra_env=None):
    cmd = [env.PY, "-B", "-m", "vp.worker", pid, shard_path, out_path]
    return subprocess.Popen(cmd, cwd=env.VERIF, env=env.worker_env(hashseed, extra_env),
                            stdout=subprocess.DEVNULL, stderr=subprocess.PIPE)


def run_cases(pid, cases, tier, nproc=None, timeout=None, log=print, worker_env_extra=None):
    """Run cases in worker processes; returns (results, harness_errors)."""
    nproc = nproc or env.NPROC
    nshards = max(1, min(nproc, len(cases)))
    tmp = tempfile.mkdtemp(prefix="vp-%s-" % pid)
    results, errors = [], []
    try:
        shards = [[] for _ in range(nshards)]
        # heavy cases first, round robin => balanced
        order = sorted(range(len(cases)), key=lambda i: -float(cases[i].get("cost", 1.0)))
        for n, i in enumerate(order):
            shards[n % nshards].append(cases[i])
        procs = []
        for k, sh in enumerate(shards):
            sp = os.path.join(tmp, "shard%d.json" % k)
            op = os.path.join(tmp, "out%d.jsonl" % k)
            with open(sp, "w") as fh:
                json.dump({"tier": tier, "cases": sh}, fh)
            procs.append((_spawn(pid, sp, op, extra_env=worker_env_extra), op, len(sh), k))
        deadline = time.time() + (timeout or 3600)
        for p, op, n, k in procs:
            left = max(1.0, deadline - time.time())
            try:
                _, err = p.communicate(timeout=left)
            except subprocess.TimeoutExpired:
                p.kill()
                _, err = p.communicate()
                errors.append("watchdog: worker %d killed after timeout" % k)
            got = 0
            if os.path.exists(op):
                with open(op) as fh:
                    for line in fh:
                        line = line.strip()
                        if line:
                            try:
                                rec = json.loads(line)
                                if "coverage_record" in rec:
                                    for fn, lns in rec["coverage_record"].items():
                                        COVERAGE.setdefault(fn, set()).update(lns)
                                    continue
                                results.append(rec)
                                got += 1
                            except ValueError:
                                errors.append("worker %d: unparsable result line" % k)
            if p.returncode != 0:
                errors.append("worker %d exit %s: %s" % (
                    k, p.returncode, (err or b"").decode(errors="replace")[-1500:]))
            elif got != n:
                errors.append("worker %d returned %d of %d results" % (k, got, n))
    finally:
        shutil.rmtree(tmp, ignore_errors=True)
    return results, errors


def classify(pid, viol, known):
    """Return the known-finding entry matching this violation's mechanism class, if any."""
    for f in known.get("findings", []):
        props = f.get("properties") or [f.get("property")]
        if pid in props and viol.get("cls") in f.get("classes", []):
            return f
    return None


def out_root():
    """Where evidence/ and replays/ are written: /verif, unless VERIF_OUT names a scratch directory
    (used when the checks are pointed at a scratch copy of the repository, e.g. tools/eval_seed.py,
    so that such runs never touch the evidence of /repo itself)."""
    return os.environ.get("VERIF_OUT") or env.VERIF


def write_replay(pid, case, viol):
    d = os.path.join(out_root(), "replays", pid)
    os.makedirs(d, exist_ok=True)
    name = "%s-%s.json" % (viol.get("cls", "violation"), digest([case, viol.get("msg")]))
    path = os.path.join(d, name)
    with open(path, "w") as fh:
        json.dump({"property": pid, "case": case, "violation": viol,
                   "seed": env.seed(), "repo": env.REPO}, fh, indent=1, default=str)
    return os.path.relpath(path, out_root())


def clear_replays(pid):
    d = os.path.join(out_root(), "replays", pid)
    if os.path.isdir(d):
        shutil.rmtree(d, ignore_errors=True)


def main_check(pid, tier, replay=None, out=print):
    t0 = time.time()
    mod = prop_module(pid)
    seed = env.seed()
    known = load_known()
    if replay:
        with open(replay) as fh:
            rp = json.load(fh)
        cases = [rp["case"]]
    else:
        cases = mod.generate(tier, seed)
    case_by_id = {}
    for i, c in enumerate(cases):
        c.setdefault("id", "%s-%05d" % (pid, i))
        case_by_id[c["id"]] = c
    results, herrs = run_cases(pid, cases, tier,
                               timeout=getattr(mod, "TIMEOUT", {}).get(tier, 7200))
    # ---- aggregate
    counts, classes = {}, {}
    nontrivial = set()
    samples = []
    violations = []
    inconclusive_cases = 0
    evals = 0
    for r in results:
        evals += int(r.get("evals", 1))
        for k, v in (r.get("counts") or {}).items():
            counts[k] = counts.get(k, 0) + v
        for k in (r.get("classes") or []):
            classes[k] = classes.get(k, 0) + 1
        for dg in (r.get("nontrivial_digests") or ([r["digest"]] if r.get("nontrivial") else [])):
            nontrivial.add(dg)
        if r.get("inconclusive"):
            inconclusive_cases += 1
        if r.get("sample") is not None and len(samples) < 5:
            samples.append(r["sample"])
        for v in (r.get("violations") or []):
            v["case_id"] = r.get("id")
            violations.append(v)
        if r.get("harness_error"):
            herrs.append("case %s: %s" % (r.get("id"), r["harness_error"][-600:]))
    # the coverage rules of a property (classes that must be seen, minimum counts) apply to a
    # whole tier, not to the replay of a single recorded case
    verdict = mod.verdict(tier, counts, classes, len(nontrivial), results) \
        if hasattr(mod, "verdict") and not replay else None
    # ---- classify violations
    if not replay:
        clear_replays(pid)
    known_hit, unlisted = {}, {}
    for v in violations:
        f = classify(pid, v, known)
        if f is not None:
            known_hit.setdefault(f["id"], (f, []))[1].append(v)
        else:
            unlisted.setdefault(v.get("cls", "violation"), []).append(v)
    for fid, (f, vs) in sorted(known_hit.items()):
        out("KNOWN-FINDING: property=%s %s [%s; %d witnesses, e.g. %s]" % (
            pid, f["what"], fid, len(vs), vs[0].get("msg", "")[:160]))
    nviol = 0
    for cls, vs in sorted(unlisted.items()):
        v = vs[0]
        path = write_replay(pid, case_by_id.get(v.get("case_id"), {}), v)
        out("VIOLATION property=%s replay=%s" % (pid, path))
        out("  class=%s witnesses=%d first: %s" % (cls, len(vs), v.get("msg", "")[:400]))
        nviol += len(vs)
    for k in sorted(counts):
        out("OBSERVED %s %s=%d" % (pid, k, counts[k]))
    if classes:
        out("OBSERVED %s classes: %s" % (pid, ", ".join(
            "%s=%d" % (k, classes[k]) for k in sorted(classes))))
    # ---- verdict
    reasons = list(herrs)
    if verdict:
        reasons.extend(verdict)
    if len(results) == 0:
        reasons.append("no results")
    wall = time.time() - t0
    ev = {
        "property_id": pid, "tier": tier, "seed": seed, "level": "exploration",
        "coverage": {
            "evaluations": evals,
            "distinct_nontrivial": len(nontrivial),
            "rule": getattr(mod, "RULE", ""),
            "samples": samples or [{"note": "no sample recorded"}],
            "monitor_evaluations": counts,
            "classes_seen": classes,
            "known_findings_hit": sorted(known_hit),
            "inconclusive_cases": inconclusive_cases,
            "cases": len(cases),
            "anchor_lines": (dump_coverage(), anchor_coverage(pid))[1],
            "explanation": getattr(mod, "EXPLANATION", ""),
            "exhaustive": bool(getattr(mod, "EXHAUSTIVE", {}).get(tier, False)),
            "verdict": "violated" if unlisted else ("inconclusive" if reasons else "held"),
            "inconclusive_reasons": reasons[:20],
        },
        "assumptions": getattr(mod, "ASSUMPTIONS", []),
        "wall_s": round(wall, 2),
        "violations": nviol,
    }
    if not replay:
        os.makedirs(os.path.join(out_root(), "evidence"), exist_ok=True)
        with open(os.path.join(out_root(), "evidence", "%s.json" % pid), "w") as fh:
            json.dump(ev, fh, indent=1, default=str)
    if unlisted:
        return EXIT_VIOLATED
    if reasons:
        for r_ in reasons[:10]:
            out("INCONCLUSIVE property=%s reason=%s" % (pid, r_.replace("\n", " | ")[:600]))
        return EXIT_INCONCLUSIVE
    out("HELD property=%s tier=%s seed=%d evaluations=%d distinct_nontrivial=%d wall=%.1fs" % (
        pid, tier, seed, evals, len(nontrivial), wall))
    return EXIT_HELD
