"""Case sources shared by the property modules (DESIGN 3.2): the repository's own PDB
files (R), cut-outs of them with real geometry (K) and record-level helpers."""
import os

from . import env, pdbio

PROTEINS = ["1FTJ-Chain-A.pdb", "1HPX.pdb", "3SGB.pdb", "4DFR.pdb"]
SMALL = ["sample-issue-140.pdb", "1HPX-warn.pdb"]
MULTICONF = ["conf-alt-AB.pdb", "conf-alt-AB-mutant.pdb", "conf-alt-BC.pdb",
             "conf-model-missing-atoms.pdb", "conf-model-mutant.pdb"]
WATER = ("HOH", "H2O")

_CACHE = {}


def repo_recs(name, model_only=True):
    key = (name, model_only)
    if key not in _CACHE:
        recs = pdbio.load(os.path.join(env.repo_pdb_dir(), name))
        if model_only:
            recs = pdbio.strip_to_model_content(recs)
        _CACHE[key] = recs
    return [r for r in _CACHE[key]]


def repo_text(name):
    with open(os.path.join(env.repo_pdb_dir(), name)) as fh:
        return fh.read()


def no_water(recs):
    return [r for r in recs if r.raw is not None or r.resn not in WATER]


def no_hydrogens(recs):
    return [r for r in recs if r.raw is not None or r.elem() != "H"]


class Residue:
    __slots__ = ("key", "atoms", "first_line", "ter_before")

    def __init__(self, key):
        self.key = key
        self.atoms = []
        self.ter_before = False


def residue_list(recs):
    """Residues in file order; ter_before marks a TER/MODEL between it and the previous."""
    out = []
    last_key = None
    ter = False
    for r in recs:
        if r.raw is not None:
            if r.tag in ("TER   ", "MODEL ", "ENDMDL"):
                ter = True
                last_key = None
            continue
        key = (r.tag, r.chain, r.resnum, r.icode, r.resn)
        if key != last_key:
            res = Residue(key)
            res.ter_before = ter
            ter = False
            out.append(res)
            last_key = key
        out[-1].atoms.append(r)
    return out


def emit(residues, ter_between=True, final_ter=False):
    """Residue list -> records, with a TER wherever one lay between two kept residues."""
    out = []
    pending_ter = False
    first = True
    for res in residues:
        if res.ter_before and not first and ter_between:
            out.append(pdbio.raw("TER"))
        first = False
        out.extend(res.atoms)
    if final_ter:
        out.append(pdbio.raw("TER"))
    return out


def mark_ters(all_residues, kept_idx):
    """ter_before for kept residues = any TER between them and the previously kept one."""
    kept = []
    prev = None
    for i in kept_idx:
        src = all_residues[i]
        res = Residue(src.key)
        res.atoms = list(src.atoms)
        lo = (prev + 1) if prev is not None else i
        res.ter_before = any(all_residues[j].ter_before for j in range(lo, i + 1)) \
            if prev is not None else False
        kept.append(res)
        prev = i
    return kept


def cutout(recs, rng, radius_A=10.0, center=None, protein_only=False):
    """All residues with an atom within radius of a (random) centre residue."""
    import numpy as np
    recs = no_water(recs)
    rl = residue_list(recs)
    cand = [i for i, r in enumerate(rl) if r.key[0] == "ATOM  "]
    ci = center if center is not None else rng.choice(cand)
    c = np.array([(a.x, a.y, a.z) for a in rl[ci].atoms], dtype=np.int64)
    r2 = int(radius_A * 1000) ** 2
    keep = []
    for i, res in enumerate(rl):
        if protein_only and res.key[0] != "ATOM  ":
            continue
        p = np.array([(a.x, a.y, a.z) for a in res.atoms], dtype=np.int64)
        d = p[:, None, :] - c[None, :, :]
        if int((d * d).sum(axis=2).min()) <= r2:
            keep.append(i)
    return emit(mark_ters(rl, keep)), ci


def segment(recs, rng, length=None):
    recs = no_water(recs)
    rl = residue_list(recs)
    n = len(rl)
    length = length or rng.randint(5, 40)
    s = rng.randrange(0, max(1, n - length))
    return emit(mark_ters(rl, list(range(s, min(n, s + length)))))


def random_small_structure(rng, min_atoms=60, max_atoms=700):
    """A structure that runs in tens of milliseconds: cut-out, segment or small file."""
    for _ in range(20):
        u = rng.random()
        if u < 0.1:
            recs = no_water(repo_recs(rng.choice(SMALL)))
        elif u < 0.8:
            recs, _ = cutout(repo_recs(rng.choice(PROTEINS)), rng, rng.choice((7, 8, 9, 10, 12, 14)))
        else:
            recs = segment(repo_recs(rng.choice(PROTEINS)), rng)
        n = len(pdbio.atoms(recs))
        if min_atoms <= n <= max_atoms or u < 0.1:
            return recs
    return recs


def full_protein(name):
    return no_water(repo_recs(name))


def describe(recs):
    a = pdbio.atoms(recs)
    chains = sorted({r.chain for r in a})
    return {"atoms": len(a), "chains": "".join(chains),
            "hetero": sorted({r.resn.strip() for r in a if r.tag == "HETATM"}),
            "first": a[0].text()[:30] if a else None}


# ------------------------------------------------------------------ builders
CHAIN_POOL = "ABCDEFGXYZ12ab"


def add_oxt(res_atoms):
    """Append an OXT to a residue (trigonal position at C opposite to CA and O), or None."""
    import math
    at = {a.aname(): a for a in res_atoms}
    if not all(k in at for k in ("C", "CA", "O")) or "OXT" in at:
        return None
    c, ca, o = at["C"], at["CA"], at["O"]

    def unit(v):
        n = math.sqrt(sum(x * x for x in v)) or 1.0
        return [x / n for x in v]
    v1 = unit([ca.x - c.x, ca.y - c.y, ca.z - c.z])
    v2 = unit([o.x - c.x, o.y - c.y, o.z - c.z])
    d = unit([-(v1[i] + v2[i]) for i in range(3)])
    r = c.copy()
    r.name = " OXT"
    r.x, r.y, r.z = (int(round(c.x + 1250 * d[0])), int(round(c.y + 1250 * d[1])),
                     int(round(c.z + 1250 * d[2])))
    return r


def chimera(rng, nchains=None, allow_blank=True, hetero=True, max_atoms=900):
    """2-6 chains recombined from real pieces: segments/cut-outs of the repository proteins,
    placed side by side, relabelled; TERs sometimes missing, OXT on some chains, hetero
    groups carrying their own or another chain's identifier.
    Returns (records, description)."""
    nchains = nchains or rng.choice((2, 2, 3, 3, 4, 5, 6))
    pool = list(CHAIN_POOL)
    rng.shuffle(pool)
    if allow_blank and rng.random() < 0.3:
        pool[rng.randrange(nchains)] = " "
    out = []
    desc = {"chains": [], "ter": [], "oxt": [], "hetero": []}
    offset = [0, 0, 0]
    axis = rng.randrange(3)
    prev_max = None
    natoms = 0
    for k in range(nchains):
        src = repo_recs(rng.choice(PROTEINS))
        if rng.random() < 0.6:
            piece = segment([r for r in src if r.raw is not None or r.tag == "ATOM  "],
                            rng, rng.randint(4, 22))
        else:
            piece, _ = cutout(src, rng, rng.choice((6, 7, 8, 9)), protein_only=not hetero)
        atoms_ = [r for r in piece if r.raw is None]
        if not atoms_:
            continue
        if natoms + len(atoms_) > max_atoms and k >= 2:
            break
        natoms += len(atoms_)
        cid = pool[k]
        # side by side along one axis with a 4-9 A gap
        lo = min((r.x, r.y, r.z)[axis] for r in atoms_)
        hi = max((r.x, r.y, r.z)[axis] for r in atoms_)
        shift = [0, 0, 0]
        if prev_max is not None:
            shift[axis] = prev_max + rng.randrange(4000, 9000) - lo
        piece = pdbio.move(piece, pdbio.IDENTITY, tuple(shift))
        prev_max = hi + shift[axis]
        res = residue_list(piece)
        prot = [x for x in res if x.key[0] == "ATOM  "]
        het = [x for x in res if x.key[0] == "HETATM"]
        recs_k = []
        # a cut-out may span several source chains: keep residue identities unique inside
        # the new chain by offsetting the numbers of every further source chain
        src_chains = []
        for x in prot:
            if x.key[1] not in src_chains:
                src_chains.append(x.key[1])
        for x in prot:
            off = 1000 * src_chains.index(x.key[1])
            for a in x.atoms:
                a2 = a.copy()
                a2.chain = cid
                a2.resnum = a.resnum + off
                recs_k.append(a2)
        if prot and rng.random() < 0.4:
            lastres = (recs_k[-1].resnum, recs_k[-1].icode)
            oxt = add_oxt([a for a in recs_k if (a.resnum, a.icode) == lastres])
            if oxt is not None:
                oxt.chain = cid
                # sometimes not the last atom of the residue
                if rng.random() < 0.3:
                    recs_k.insert(len(recs_k) - rng.randrange(0, 3), oxt)
                else:
                    recs_k.append(oxt)
                desc["oxt"].append(cid)
        out.extend(recs_k)
        ter = rng.random() < 0.7
        if ter and recs_k:
            out.append(pdbio.raw("TER"))
        desc["ter"].append(ter)
        desc["chains"].append(cid)
        for x in het:
            hc = rng.choice((cid, cid, pool[(k + 1) % nchains], pool[nchains]))
            num = x.atoms[0].resnum
            # a hetero residue keeps its number unless that identity is taken already in its new chain
            # (the same ligand cut out twice, or a protein residue of that number): then it gets a free one
            taken = {(r.chain, r.resnum, r.icode) for r in out if r.raw is None}
            if (hc, num, x.atoms[0].icode) in taken:
                num = max([r.resnum for r in out if r.raw is None and r.chain == hc] + [899]) + 1
                if num > 9999:
                    continue
            for a in x.atoms:
                a2 = a.copy()
                a2.chain = hc
                a2.resnum = num
                out.append(a2)
            desc["hetero"].append((x.key[4].strip(), hc))
    return out, desc


def with_hydrogens(recs, hydrogens, moved=None):
    """Insert hydrogen records (obs 'hydrogens' entries: name, xyz, parents[0] = akey of the
    heavy atom) after the last atom of the parent's residue. `moved` optionally maps the
    (x,y,z) floats to lattice integers (used when hydrogens are mapped between frames).
    Returns (records, n_inserted, n_orphans)."""
    by_parent = {}
    for h in hydrogens:
        if not h["parents"]:
            continue
        by_parent.setdefault(tuple(h["parents"][0]), []).append(h)
    out = []
    n = 0
    # position of the last atom of every residue
    last_of = {}
    for i, r in enumerate(recs):
        if r.raw is None:
            last_of[(r.tag, r.chain, r.resnum, r.icode, r.resn, r.alt)] = i
    pending = {}
    for i, r in enumerate(recs):
        out.append(r)
        if r.raw is not None:
            continue
        key = (r.tag, r.chain, r.resnum, r.icode, r.resn, r.alt)
        for h in by_parent.pop(r.akey(), []):
            xyz = moved(h["xyz"]) if moved else tuple(int(round(v * 1000)) for v in h["xyz"])
            nm = h["name"]
            hr = pdbio.new_atom(r.tag, "    0", pdbio.name4(nm, "H") if len(nm) < 4 else nm[:4], r.resn, r.chain,
                                r.resnum, xyz[0], xyz[1], xyz[2], alt=r.alt, icode=r.icode,
                                tail="  1.00  0.00           H")
            pending.setdefault(key, []).append(hr)
            n += 1
        if last_of[key] == i and key in pending:
            out.extend(pending.pop(key))
    return out, n, sum(len(v) for v in by_parent.values())


def identities_unique(recs):
    """True if, within a model, no two separate residues share the identity (chain, number,
    insertion code). An ATOM residue may be interrupted by HETATM records (an ion written between
    its atoms); a HETATM residue must be contiguous."""
    seen = set()
    last_atom = None
    prev = None
    ids = {}
    atom_names = set()
    model = 0
    for r in recs:
        if r.raw is not None:
            if r.tag == "MODEL ":
                seen, last_atom, prev = set(), None, None
                model += 1
            elif r.tag == "TER   ":
                last_atom, prev = None, None
            continue
        k = (r.chain, r.resnum, r.icode)
        if r.tag == "ATOM  ":
            if k != last_atom:
                if (r.tag, k) in seen:
                    return False
                seen.add((r.tag, k))
                last_atom = k
        else:
            if prev != (r.tag, k):
                if (r.tag, k) in seen:
                    return False
                seen.add((r.tag, k))
        prev = (r.tag, k)
        # the same identity used by an ATOM residue and a HETATM residue (or by two residue names)
        ids.setdefault((model, k), set()).add((r.tag, r.resn))
        # two atoms of one name (and alternate location) in one residue: two molecules under one identity
        ak = (model, k, r.name, r.alt)
        if ak in atom_names:
            return False
        atom_names.add(ak)
    return all(len(v) == 1 for v in ids.values())


_RES_CACHE = {}


def whole_residue(resn, atomname):
    """A complete residue of the given type from the repository proteins (copy)."""
    key = (resn, atomname)
    if key not in _RES_CACHE:
        for name in PROTEINS:
            for res in residue_list(full_protein(name)):
                if (res.key[4] == resn and res.key[0] == "ATOM  " and all(a.alt == " " for a in res.atoms)
                        and any(a.aname() == atomname for a in res.atoms) and len(res.atoms) >= 6):
                    _RES_CACHE[key] = res.atoms
                    break
            if key in _RES_CACHE:
                break
    return [a.copy() for a in _RES_CACHE[key]]


def residue_cluster(rng, k=None, chain="K"):
    """k whole residues of one ionizable type, rigidly placed so that their titrating atoms are
    within a few Angstrom of each other and no two atoms of different residues are closer than
    2.7 A (no inter-residue bonds). Such clusters often do not converge in the iterative solver."""
    import numpy as np
    from . import fragments
    resn, an = rng.choice((("LYS", "NZ"), ("ASP", "CG"), ("GLU", "CD"), ("HIS", "NE2"), ("TYR", "OH"), ("ARG", "CZ")))
    k = k or rng.choice((3, 4, 5))
    spread = rng.uniform(1.5, 3.0)
    base = whole_residue(resn, an)
    out = []
    placed = 0
    for i in range(k):
        for _ in range(100):
            rot = fragments.random_rotation(rng)
            key = [a for a in base if a.aname() == an][0]
            tgt = [rng.uniform(-spread, spread) * 1000 for _ in range(3)]
            new = []
            for a in base:
                p = (a.x - key.x, a.y - key.y, a.z - key.z)
                q = [rot[r][0] * p[0] + rot[r][1] * p[1] + rot[r][2] * p[2] for r in range(3)]
                b = a.copy()
                b.x, b.y, b.z = int(round(q[0] + tgt[0])), int(round(q[1] + tgt[1])), int(round(q[2] + tgt[2]))
                b.chain, b.resnum, b.icode = chain, 10 + 3 * i, " "
                new.append(b)
            if out:
                P = np.array([(a.x, a.y, a.z) for a in out], float)
                F = np.array([(a.x, a.y, a.z) for a in new], float)
                if np.sqrt(((F[:, None, :] - P[None, :, :]) ** 2).sum(2)).min() < 2700:
                    continue
            out += new
            placed += 1
            break
    return out, {"cluster": resn, "residues": placed}
