"""Case sources shared by the property modules (DESIGN 3.2): the repository's own PDB
files (R), cut-outs of them with real geometry (K) and record-level helpers."""
import os

from . import env, pdbio

PROTEINS = ["1FTJ-Chain-A.pdb", "1HPX.pdb", "3SGB.pdb", "4DFR.pdb"]
SMALL = ["sample-issue-140.pdb", "1HPX-warn.pdb"]
MULTICONF = ["conf-alt-AB.pdb", "conf-alt-AB-mutant.pdb", "conf-alt-BC.pdb",
             "conf-model-missing-atoms.pdb", "conf-model-mutant.pdb"]
WATER = ("HOH", "H2O")

_CACHE = {}


def repo_recs(name, model_only=True):
    key = (name, model_only)
    if key not in _CACHE:
        recs = pdbio.load(os.path.join(env.repo_pdb_dir(), name))
        if model_only:
            recs = pdbio.strip_to_model_content(recs)
        _CACHE[key] = recs
    return [r for r in _CACHE[key]]


def repo_text(name):
    with open(os.path.join(env.repo_pdb_dir(), name)) as fh:
        return fh.read()


def no_water(recs):
    return [r for r in recs if r.raw is not None or r.resn not in WATER]


def no_hydrogens(recs):
    return [r for r in recs if r.raw is not None or r.elem() != "H"]


class Residue:
    __slots__ = ("key", "atoms", "first_line", "ter_before")

    def __init__(self, key):
        self.key = key
        self.atoms = []
        self.ter_before = False


def residue_list(recs):
    """Residues in file order; ter_before marks a TER/MODEL between it and the previous."""
    out = []
    last_key = None
    ter = False
    for r in recs:
        if r.raw is not None:
            if r.tag in ("TER   ", "MODEL ", "ENDMDL"):
                ter = True
                last_key = None
            continue
        key = (r.tag, r.chain, r.resnum, r.icode, r.resn)
        if key != last_key:
            res = Residue(key)
            res.ter_before = ter
            ter = False
            out.append(res)
            last_key = key
        out[-1].atoms.append(r)
    return out


def emit(residues, ter_between=True, final_ter=False):
    """Residue list -> records, with a TER wherever one lay between two kept residues."""
    out = []
    pending_ter = False
    first = True
    for res in residues:
        if res.ter_before and not first and ter_between:
            out.append(pdbio.raw("TER"))
        first = False
        out.extend(res.atoms)
    if final_ter:
        out.append(pdbio.raw("TER"))
    return out


def mark_ters(all_residues, kept_idx):
    """ter_before for kept residues = any TER between them and the previously kept one."""
    kept = []
    prev = None
    for i in kept_idx:
        src = all_residues[i]
        res = Residue(src.key)
        res.atoms = list(src.atoms)
        lo = (prev + 1) if prev is not None else i
        res.ter_before = any(all_residues[j].ter_before for j in range(lo, i + 1)) \
            if prev is not None else False
        kept.append(res)
        prev = i
    return kept


def cutout(recs, rng, radius_A=10.0, center=None, protein_only=False):
    """All residues with an atom within radius of a (random) centre residue."""
    import numpy as np
    recs = no_water(recs)
    rl = residue_list(recs)
    cand = [i for i, r in enumerate(rl) if r.key[0] == "ATOM  "]
    ci = center if center is not None else rng.choice(cand)
    c = np.array([(a.x, a.y, a.z) for a in rl[ci].atoms], dtype=np.int64)
    r2 = int(radius_A * 1000) ** 2
    keep = []
    for i, res in enumerate(rl):
        if protein_only and res.key[0] != "ATOM  ":
            continue
        p = np.array([(a.x, a.y, a.z) for a in res.atoms], dtype=np.int64)
        d = p[:, None, :] - c[None, :, :]
        if int((d * d).sum(axis=2).min()) <= r2:
            keep.append(i)
    return emit(mark_ters(rl, keep)), ci


def segment(recs, rng, length=None):
    recs = no_water(recs)
    rl = residue_list(recs)
    n = len(rl)
    length = length or rng.randint(5, 40)
    s = rng.randrange(0, max(1, n - length))
    return emit(mark_ters(rl, list(range(s, min(n, s + length)))))


def random_small_structure(rng, min_atoms=60, max_atoms=700):
    """A structure that runs in tens of milliseconds: cut-out, segment or small file."""
    for _ in range(20):
        u = rng.random()
        if u < 0.1:
            recs = no_water(repo_recs(rng.choice(SMALL)))
        elif u < 0.8:
            recs, _ = cutout(repo_recs(rng.choice(PROTEINS)), rng, rng.choice((7, 8, 9, 10, 12, 14)))
        else:
            recs = segment(repo_recs(rng.choice(PROTEINS)), rng)
        n = len(pdbio.atoms(recs))
        if min_atoms <= n <= max_atoms or u < 0.1:
            return recs
    return recs


def full_protein(name):
    return no_water(repo_recs(name))


def describe(recs):
    a = pdbio.atoms(recs)
    chains = sorted({r.chain for r in a})
    return {"atoms": len(a), "chains": "".join(chains),
            "hetero": sorted({r.resn.strip() for r in a if r.tag == "HETATM"}),
            "first": a[0].text()[:30] if a else None}
