"""Fixed-column PDB reader/writer and structure edits of the harness.

Independent of propka.atom: written from the PDB format description. Coordinates are
kept as integers in milli-Angstrom so that rigid motions on the lattice are exact.
"""
import copy
import os
import string

ATOM_TAGS = ("ATOM  ", "HETATM")
FIELD_MIN = -999999      # -999.999 A
FIELD_MAX = 9999999      # 9999.999 A


class Rec:
    """One line of a PDB file. Atom records are parsed, everything else is kept raw."""
    __slots__ = ("tag", "serial", "name", "alt", "resn", "chain", "resnum", "icode",
                 "x", "y", "z", "tail", "raw")

    def __init__(self, line=None):
        self.raw = None
        if line is None:
            return
        line = line.rstrip("\r\n")
        tag = (line[:6] + "      ")[:6]
        self.tag = tag
        if tag in ATOM_TAGS and len(line) >= 54:
            self.serial = line[6:11]
            self.name = line[12:16]
            self.alt = line[16]
            self.resn = line[17:20]
            self.chain = line[21]
            self.resnum = int(line[22:26])
            self.icode = line[26]
            self.x = to_milli(line[30:38])
            self.y = to_milli(line[38:46])
            self.z = to_milli(line[46:54])
            self.tail = line[54:]
        else:
            self.raw = line

    @property
    def is_atom(self):
        return self.raw is None

    def copy(self):
        return copy.copy(self)

    def elem(self):
        """Element from the name columns (13-14 right-justified; 4-char names -> first)."""
        e = self.name[0:2].strip().strip(string.digits)
        if len(self.name.strip()) == 4:
            e = e[:1]
        if len(e) == 2:
            e = e[0] + e[1].lower()
        return e

    def aname(self):
        return self.name.strip()

    def resid(self):
        return (self.chain, self.resnum, self.icode)

    def akey(self):
        """Identity of an atom by name + exact lattice position."""
        return (self.name.strip(), self.x, self.y, self.z)

    def text(self):
        if self.raw is not None:
            return self.raw
        return "%-6s%5s %4s%1s%3s %1s%4d%1s   %s%s%s%s" % (
            self.tag, self.serial, self.name,
            self.alt, self.resn, self.chain, self.resnum, self.icode,
            fmt_milli(self.x), fmt_milli(self.y), fmt_milli(self.z), self.tail)


def to_milli(field):
    """'  12.345' -> 12345 (exact decimal arithmetic, no float rounding)."""
    s = field.strip()
    neg = s.startswith("-")
    if s[:1] in "+-":
        s = s[1:]
    if "." in s:
        a, b = s.split(".")
    else:
        a, b = s, ""
    b = (b + "000")[:3]
    v = int(a or "0") * 1000 + int(b or "0")
    return -v if neg else v


def fmt_milli(v):
    s = "-" if v < 0 else ""
    v = abs(v)
    out = "%s%d.%03d" % (s, v // 1000, v % 1000)
    if len(out) > 8:
        raise ValueError("coordinate %s does not fit the PDB field" % out)
    return out.rjust(8)


def parse(text):
    return [Rec(l) for l in text.splitlines()]


def dump(recs):
    """Text of the records. A generated TER record is written in one of the three forms found in
    real files - bare "TER", padded to the record name, or the full form with serial and residue -
    chosen by its position (deterministic, so a replay sees the same text)."""
    out = []
    k = len(recs)
    prev = None
    for r in recs:
        if r.raw is not None and r.raw.strip() == "TER":
            form = k % 3
            k += 1
            if form == 0:
                out.append("TER")
            elif form == 1 or prev is None:
                out.append("TER   ")
            else:
                try:
                    ser = "%5d" % (int(prev.serial) + 1)
                except ValueError:
                    ser = "     "
                out.append(("TER   %s      %3s %s%4d%s" % (ser, prev.resn, prev.chain, prev.resnum, prev.icode)).ljust(80))
            continue
        if r.raw is None:
            prev = r
        out.append(r.text())
    return "\n".join(out) + "\n"


def load(path):
    with open(path) as fh:
        return parse(fh.read())


def atoms(recs):
    return [r for r in recs if r.raw is None]


def new_atom(tag, serial, name, resn, chain, resnum, x, y, z, alt=" ", icode=" ",
             tail="  1.00  0.00"):
    r = Rec()
    r.tag = (tag + "      ")[:6]
    r.serial = "%5s" % serial
    r.name = name
    r.alt = alt
    r.resn = resn
    r.chain = chain
    r.resnum = resnum
    r.icode = icode
    r.x, r.y, r.z = int(x), int(y), int(z)
    r.tail = tail
    r.raw = None
    return r


def raw(text):
    """A non-atom record; padded to the 6-column record name (propka compares line[0:6])."""
    r = Rec()
    if len(text) < 6:
        text = (text + "      ")[:6]
    r.tag = text[:6]
    r.raw = text
    return r


def name4(name, elem=None):
    """Place an atom name into the 4-character field following the PDB convention."""
    name = name.strip()
    if len(name) >= 4:
        return name[:4]
    elem = elem or name[0]
    if len(elem) == 2:
        return name.ljust(4)
    return " " + name.ljust(3)


def strip_to_model_content(recs, keep=("ATOM  ", "HETATM", "TER   ", "MODEL ", "ENDMDL")):
    return [r for r in recs if r.tag in keep]


def residues(recs):
    """Group atom records into residues in file order: list of (resid+resn, [recs])."""
    out = []
    last = None
    for r in recs:
        if r.raw is not None:
            last = None if r.tag in ("TER   ", "MODEL ", "ENDMDL") else last
            continue
        key = (r.tag, r.chain, r.resnum, r.icode, r.resn)
        if key != last:
            out.append((key, []))
            last = key
        out[-1][1].append(r)
    return out


def bbox(recs):
    a = atoms(recs)
    return (min(r.x for r in a), min(r.y for r in a), min(r.z for r in a),
            max(r.x for r in a), max(r.y for r in a), max(r.z for r in a))


def fits(recs):
    for r in atoms(recs):
        for v in (r.x, r.y, r.z):
            if v < FIELD_MIN or v > FIELD_MAX:
                return False
    return True


# ---------------------------------------------------------------- rigid motions
def _perm_mats():
    import itertools
    mats = []
    for perm in itertools.permutations(range(3)):
        for signs in itertools.product((1, -1), repeat=3):
            m = [[0] * 3 for _ in range(3)]
            for i in range(3):
                m[i][perm[i]] = signs[i]
            det = (m[0][0] * (m[1][1] * m[2][2] - m[1][2] * m[2][1])
                   - m[0][1] * (m[1][0] * m[2][2] - m[1][2] * m[2][0])
                   + m[0][2] * (m[1][0] * m[2][1] - m[1][1] * m[2][0]))
            if det == 1:
                mats.append(tuple(tuple(row) for row in m))
    return mats


ROTATIONS = _perm_mats()      # the 24 proper rotations that map the lattice onto itself
IDENTITY = ((1, 0, 0), (0, 1, 0), (0, 0, 1))
assert len(ROTATIONS) == 24 and IDENTITY in ROTATIONS


def apply_motion(xyz, rot, trans):
    x, y, z = xyz
    return (rot[0][0] * x + rot[0][1] * y + rot[0][2] * z + trans[0],
            rot[1][0] * x + rot[1][1] * y + rot[1][2] * z + trans[1],
            rot[2][0] * x + rot[2][1] * y + rot[2][2] * z + trans[2])


def inverse_motion(rot, trans):
    inv = tuple(tuple(rot[j][i] for j in range(3)) for i in range(3))
    t = apply_motion(trans, inv, (0, 0, 0))
    return inv, (-t[0], -t[1], -t[2])


def move(recs, rot=IDENTITY, trans=(0, 0, 0)):
    out = []
    for r in recs:
        if r.raw is None:
            r = r.copy()
            r.x, r.y, r.z = apply_motion((r.x, r.y, r.z), rot, trans)
        out.append(r)
    return out


def min_distance2(recs_a, recs_b):
    """Exact minimum squared distance (milli-A^2, integer) between two atom sets."""
    import numpy as np
    a = np.array([(r.x, r.y, r.z) for r in atoms(recs_a)], dtype=np.int64)
    b = np.array([(r.x, r.y, r.z) for r in atoms(recs_b)], dtype=np.int64)
    best = None
    for i in range(0, len(a), 512):
        d = a[i:i + 512, None, :] - b[None, :, :]
        m = int((d * d).sum(axis=2).min())
        best = m if best is None else min(best, m)
    return best


# ---------------------------------------------------------------- sources
def repo_files(pdb_dir):
    return sorted(f for f in os.listdir(pdb_dir) if f.endswith(".pdb"))
