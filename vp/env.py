"""Locations, tiers, seeds. Everything is checkout-relative except the repo under test."""
import os
import sys

VERIF = os.path.dirname(os.path.dirname(os.path.abspath(__file__)))
REPO = os.path.abspath(os.environ.get("VERIF_REPO", "/repo"))
PY = os.environ.get("VERIF_PY", "/venv/bin/python")
GUARD = "PROPKA_VERIF"          # switches the monitors on inside worker processes
NPROC = int(os.environ.get("VERIF_NPROC", str(min(16, os.cpu_count() or 4))))


def seed() -> int:
    try:
        return int(os.environ.get("VERIF_SEED", "0"))
    except ValueError:
        return 0


def tier(default="quick") -> str:
    t = os.environ.get("VERIF_TIER", default)
    return t if t in ("quick", "thorough") else default


def repo_pdb_dir():
    return os.path.join(REPO, "tests", "pdb")


def assert_propka_from_repo():
    """Workers call this: the propka that is imported must be the tree being checked."""
    import propka
    here = os.path.realpath(os.path.dirname(propka.__file__))
    want = os.path.realpath(os.path.join(REPO, "propka"))
    if here != want:
        raise RuntimeError("propka imported from %s, expected %s" % (here, want))
    return here


def worker_env(hashseed="0", extra=None):
    env = dict(os.environ)
    env["PYTHONPATH"] = REPO + os.pathsep + VERIF
    env["PYTHONHASHSEED"] = str(hashseed)
    env["PYTHONDONTWRITEBYTECODE"] = "1"
    env[GUARD] = "1"
    env["VERIF_REPO"] = REPO
    if extra:
        env.update(extra)
    return env
