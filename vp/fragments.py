"""Fragment library (DESIGN 3.2 F): small hetero groups with idealised geometry, each declaring
the ligand group type the program is expected to assign at a named atom, and all ions of
propka.cfg. Coordinates in Angstrom, built from textbook bond lengths and angles."""
import math
import random

from . import pdbio

S3 = math.sqrt(3.0)


def _ring(n, r_bond, z=0.0):
    """Regular n-gon with edge length r_bond in the xy plane."""
    R = r_bond / (2 * math.sin(math.pi / n))
    return [(R * math.cos(2 * math.pi * i / n), R * math.sin(2 * math.pi * i / n), z) for i in range(n)]


def _tet(center, toward, length, k):
    """k-th (0..2) tetrahedral substituent position around `center` whose fourth bond points to
    `toward` (unit vector from center)."""
    tx, ty, tz = toward
    # orthonormal frame
    if abs(tx) < 0.9:
        ux, uy, uz = 0.0, -tz, ty
    else:
        ux, uy, uz = -tz, 0.0, tx
    n = math.sqrt(ux * ux + uy * uy + uz * uz)
    ux, uy, uz = ux / n, uy / n, uz / n
    vx, vy, vz = ty * uz - tz * uy, tz * ux - tx * uz, tx * uy - ty * ux
    c, s = math.cos(math.radians(109.47)), math.sin(math.radians(109.47))
    a = 2 * math.pi * k / 3
    d = (c * tx + s * (math.cos(a) * ux + math.sin(a) * vx),
         c * ty + s * (math.cos(a) * uy + math.sin(a) * vy),
         c * tz + s * (math.cos(a) * uz + math.sin(a) * vz))
    return (center[0] + length * d[0], center[1] + length * d[1], center[2] + length * d[2])


def _hexagon(names, elems):
    pts = _ring(6, 1.39)
    return [(names[i], elems[i], pts[i]) for i in range(6)]


c120, s120 = math.cos(math.radians(120)), math.sin(math.radians(120))

# name: (residue name, [(atom name, element, (x,y,z))], {atom name: expected group type})
FRAGMENTS = {
    "methylamine": ("MAM", [("C1", "C", (0, 0, 0)), ("N1", "N", (1.47, 0, 0))], {"N1": "N31"}),
    "ammonium": ("NH4", [("N1", "N", (0, 0, 0))], {"N1": "N30"}),
    "dimethylamine": ("DMA", [("N1", "N", (0, 0, 0)), ("C1", "C", (1.46, 0, 0)),
                              ("C2", "C", (1.46 * math.cos(math.radians(112)), 1.46 * math.sin(math.radians(112)), 0))], {"N1": "N32"}),
    "trimethylamine": ("TMA", [("N1", "N", (0, 0, 0.45)), ("C1", "C", (1.39, 0, 0)), ("C2", "C", (1.39 * c120, 1.39 * s120, 0)),
                               ("C3", "C", (1.39 * c120, -1.39 * s120, 0))], {"N1": "N33"}),
    "methylguanidinium": ("MGU", [("C1", "C", (0, 0, 0)), ("N1", "N", (1.33, 0, 0)), ("N2", "N", (1.33 * c120, 1.33 * s120, 0)),
                                  ("N3", "N", (1.33 * c120, -1.33 * s120, 0)),
                                  ("C2", "C", (1.33 + 1.46 * 0.5, 1.46 * S3 / 2, 0))], {"C1": "CG"}),
    "acetamidinium": ("AMI", [("C1", "C", (0, 0, 0)), ("C2", "C", (1.50, 0, 0)), ("N1", "N", (1.32 * c120, 1.32 * s120, 0)),
                              ("N2", "N", (1.32 * c120, -1.32 * s120, 0))], {"C1": "C2N"}),
    "acetate": ("ACT", [("C1", "C", (0, 0, 0)), ("C2", "C", (1.52, 0, 0)), ("O1", "O", (1.26 * c120, 1.26 * s120, 0)),
                        ("O2", "O", (1.26 * c120, -1.26 * s120, 0))], {"C1": "OCO"}),
    "pyridine": ("PYR", _hexagon(["N1", "C2", "C3", "C4", "C5", "C6"], ["N", "C", "C", "C", "C", "C"]), {"N1": "NAR"}),
    "n-methylacetamide": ("NMA", [("C1", "C", (0, 0, 0)), ("C2", "C", (-1.52 * 0.5, -1.52 * S3 / 2, 0)), ("O1", "O", (-1.23 * 0.5, 1.23 * S3 / 2, 0)),
                                  ("N1", "N", (1.33, 0, 0)), ("C3", "C", (1.33 + 1.45 * 0.5, -1.45 * S3 / 2, 0))], {"N1": "NAM", "O1": "O2"}),
    "aniline": ("ANL", _hexagon(["C1", "C2", "C3", "C4", "C5", "C6"], ["C"] * 6) + [("N1", "N", (1.39 + 1.40, 0, 0))], {"N1": "NP1"}),
    "acetonitrile": ("ACN", [("C1", "C", (0, 0, 0)), ("C2", "C", (1.46, 0, 0)), ("N1", "N", (1.46 + 1.16, 0, 0))], {"N1": "N1"}),
    "fluoromethane": ("FME", [("C1", "C", (0, 0, 0)), ("F1", "F", (1.39, 0, 0))], {"F1": "F"}),
    "chloromethane": ("CME", [("C1", "C", (0, 0, 0)), ("CL1", "Cl", (1.78, 0, 0))], {"CL1": "Cl"}),
    "methanol": ("MOH", [("C1", "C", (0, 0, 0)), ("O1", "O", (1.43, 0, 0))], {"O1": "OH"}),
    "dimethylether": ("DME", [("O1", "O", (0, 0, 0)), ("C1", "C", (1.42, 0, 0)),
                              ("C2", "C", (1.42 * math.cos(math.radians(111)), 1.42 * math.sin(math.radians(111)), 0))], {"O1": "O3"}),
    "acetone": ("ACO", [("C1", "C", (0, 0, 0)), ("O1", "O", (1.22, 0, 0)), ("C2", "C", (1.51 * c120, 1.51 * s120, 0)),
                        ("C3", "C", (1.51 * c120, -1.51 * s120, 0))], {"O1": "O2"}),
    "methanethiol": ("MSH", [("C1", "C", (0, 0, 0)), ("S1", "S", (1.82, 0, 0))], {"S1": "SH"}),
    "methylphosphate": ("MPO", [("P1", "P", (0, 0, 0)), ("O1", "O", (0.87, 0.87, 0.87)), ("O2", "O", (-0.87, -0.87, 0.87)),
                                ("O3", "O", (-0.87, 0.87, -0.87)), ("O4", "O", (0.92, -0.92, -0.92)),
                                ("C1", "C", (0.92 + 0.83, -0.92 - 0.83, -0.92 - 0.83))],
                        {"O1": "OP", "O2": "OP", "O3": "OP", "O4": "O3"}),
    # an ester: a carbonyl and an ether oxygen on one carbon - not a carboxylate, whatever the order of the records
    "methylacetate": ("MAC", [("C1", "C", (0, 0, 0)), ("C2", "C", (1.50, 0, 0)), ("O1", "O", (1.21 * c120, 1.21 * s120, 0)),
                              ("O2", "O", (1.34 * c120, -1.34 * s120, 0)), ("C3", "C", (1.34 * c120 - 1.44, -1.34 * s120, 0))],
                      {"O1": "O2", "O2": "O3"}),
    # a five-membered aromatic ring
    "imidazole": ("IMD", [("N1", "N", _ring(5, 1.37)[0]), ("C2", "C", _ring(5, 1.37)[1]), ("N3", "N", _ring(5, 1.37)[2]),
                          ("C4", "C", _ring(5, 1.37)[3]), ("C5", "C", _ring(5, 1.37)[4])], {"N1": "NAR", "N3": "NAR"}),
    # carbon - iodine, 2.14 A: longer than the 2.0 A rule for heavy atoms
    "iodomethane": ("IME", [("C1", "C", (0, 0, 0)), ("I1", "I", (2.14, 0, 0))], {}),
    # a sulfur with four oxygens under a residue name that is not the ignored SO4
    "sulfate": ("SUL", [("S1", "S", (0, 0, 0)), ("O1", "O", (0.86, 0.86, 0.86)), ("O2", "O", (-0.86, -0.86, 0.86)),
                        ("O3", "O", (-0.86, 0.86, -0.86)), ("O4", "O", (0.86, -0.86, -0.86))], {}),
    "ethylenediamine": ("EDA", [("N1", "N", (0, 0, 0)), ("C1", "C", (1.47, 0, 0)), ("C2", "C", (1.47 + 1.53 * 0.34, 1.53 * 0.94, 0)),
                                ("N2", "N", (1.47 + 1.53 * 0.34 + 1.47, 1.53 * 0.94, 0))], {"N1": "N31", "N2": "N31"}),
}

IONS = {"MG": "Mg", "CA": "Ca", "ZN": "Zn", "NA": "Na", "CL": "Cl", "MN": "Mn", "K": "K", "CD": "Cd", "FE": "Fe", "SR": "Sr",
        "CU": "Cu", "IOD": "I", "HG": "Hg", "BR": "Br", "CO": "Co", "NI": "Ni", "FE2": "Fe", "1P": "X", "2P": "X", "1N": "X", "2N": "X"}


def nucleotide(resn):
    """A planar pyrimidine-like ring with N1/N3 plus a phosphate with OP1/OP2, named as a
    DNA residue (synthetic: it exercises the custom model pKa and the DNA labelling paths)."""
    ring = _hexagon(["N1", "C2", "N3", "C4", "C5", "C6"], ["N", "C", "N", "C", "C", "C"])
    atoms = list(ring)
    px = 6.0
    atoms += [("P", "P", (px, 0, 0)), ("OP1", "O", (px + 0.87, 0.87, 0.87)), ("OP2", "O", (px - 0.87, -0.87, 0.87)),
              ("O5'", "O", (px - 0.87, 0.87, -0.87)), ("O3'", "O", (px + 0.92, -0.92, -0.92)),
              ("C5'", "C", (px - 0.87 - 0.83, 0.87 + 0.83, -0.87 - 0.83)),
              ("C3'", "C", (px + 0.92 + 0.83, -0.92 - 0.83, -0.92 - 0.83))]
    expect = {"N1": "NAR", "N3": "NAR", "OP1": "OP", "OP2": "OP"}
    return (resn, atoms, expect)


def records(name, chain="L", resnum=900, rot=None, origin=(0, 0, 0), tag="HETATM", serial0=9000, order=None):
    """Fragment as PDB records at a lattice pose. rot: 3x3 float matrix or None. order: a permutation of the
    atom indices (the order of the records within a hetero residue is arbitrary)."""
    if name in FRAGMENTS:
        resn, atoms, expect = FRAGMENTS[name]
    elif name.startswith("ion:"):
        ion = name[4:]
        el = IONS[ion]
        # atom names as in the wwPDB dictionary: the element symbol (residue FE2 -> atom FE, IOD -> I)
        an = ion if (el == "X" or ion[0].isdigit()) else el.upper()
        resn, atoms, expect = ion, [(an, el, (0, 0, 0))], {}
    elif name.startswith("dna:"):
        resn, atoms, expect = nucleotide(name[4:])
        tag = "ATOM  "
    else:
        raise KeyError(name)
    out = []
    if order is not None and len(order) == len(atoms):
        atoms = [atoms[k] for k in order]
    for i, (an, el, (x, y, z)) in enumerate(atoms):
        if rot is not None:
            x, y, z = (rot[0][0] * x + rot[0][1] * y + rot[0][2] * z, rot[1][0] * x + rot[1][1] * y + rot[1][2] * z,
                       rot[2][0] * x + rot[2][1] * y + rot[2][2] * z)
        if name.startswith("ion:"):
            name4 = ("%-4s" % an)[:4] if len(el) == 2 else " %-3s" % an
            if an[0].isdigit():
                name4 = " %-3s" % an
        else:
            name4 = pdbio.name4(an, el)
        out.append(pdbio.new_atom(tag, "%5d" % (serial0 + i), name4, "%3s" % resn, chain, resnum,
                                  int(round(x * 1000)) + origin[0], int(round(y * 1000)) + origin[1],
                                  int(round(z * 1000)) + origin[2], tail="  1.00  0.00          %2s" % el.upper()))
    return out, expect


def random_rotation(rng):
    """Uniform random rotation matrix (from a random unit quaternion)."""
    while True:
        q = [rng.gauss(0, 1) for _ in range(4)]
        n = math.sqrt(sum(c * c for c in q))
        if n > 1e-6:
            break
    w, x, y, z = [c / n for c in q]
    return ((1 - 2 * (y * y + z * z), 2 * (x * y - z * w), 2 * (x * z + y * w)),
            (2 * (x * y + z * w), 1 - 2 * (x * x + z * z), 2 * (y * z - x * w)),
            (2 * (x * z - y * w), 2 * (y * z + x * w), 1 - 2 * (x * x + y * y)))


def place_near(recs, name, rng, anchor=None, dist_A=None, chain="L", resnum=900, min_clear_A=2.7, tries=200, lattice=False,
               shuffle=False):
    """Fragment records placed so that its first declared atom (or first atom) is dist_A from an
    anchor atom of `recs` and no fragment atom is closer than min_clear_A to any atom of recs.
    Returns (fragment records, expect, distance) or (None, None, None)."""
    import numpy as np
    atoms = pdbio.atoms(recs)
    P = np.array([(a.x, a.y, a.z) for a in atoms], dtype=np.float64)
    for _ in range(tries):
        a = anchor if anchor is not None else rng.choice(atoms)
        d = dist_A if dist_A is not None else rng.uniform(2.8, 9.0)
        v = [rng.gauss(0, 1) for _ in range(3)]
        n = math.sqrt(sum(c * c for c in v)) or 1.0
        # lattice: one of the 24 rotations of the grid, so that the bonds the library builds along its axes
        # stay exactly along +-x, +-y, +-z (model-built ligands)
        rot = rng.choice(pdbio.ROTATIONS) if lattice else random_rotation(rng)
        order = None
        if shuffle and name in FRAGMENTS:
            order = list(range(len(FRAGMENTS[name][1])))
            rng.shuffle(order)
        frag, expect = records(name, chain, resnum, rot, order=order)
        key = next((r for r in frag if r.aname() in expect), frag[0])
        target = (a.x + int(round(d * 1000 * v[0] / n)), a.y + int(round(d * 1000 * v[1] / n)), a.z + int(round(d * 1000 * v[2] / n)))
        shift = (target[0] - key.x, target[1] - key.y, target[2] - key.z)
        frag = pdbio.move(frag, pdbio.IDENTITY, shift)
        F = np.array([(r.x, r.y, r.z) for r in frag], dtype=np.float64)
        dm = np.sqrt(((F[:, None, :] - P[None, :, :]) ** 2).sum(axis=2)).min()
        if dm >= min_clear_A * 1000 and all(pdbio.FIELD_MIN < c < pdbio.FIELD_MAX for r in frag for c in (r.x, r.y, r.z)):
            return frag, expect, d
    return None, None, None


ALL_LIGAND_TYPES = sorted({t for (_, _, e) in FRAGMENTS.values() for t in e.values()})


def split_over_two_residues(frag, resnum2):
    """A ligand deposited as two linked hetero residues: the second half of its records gets another residue
    number (same chain and residue name) - groups a few bonds apart then sit in different residues."""
    out = []
    half = len(frag) // 2
    for i, r in enumerate(frag):
        r = r.copy()
        if i >= half:
            r.resnum = resnum2
        out.append(r)
    return out


def polyamine(n):
    """Linear polyamine N-(C-C-N)_(n-1) in a planar zig-zag: n covalently coupled amine groups."""
    atoms = []
    x = 0.0
    k = 0
    expect = {}
    names = []
    for i in range(n):
        names.append(("N%d" % (i + 1), "N"))
        if i < n - 1:
            names.append(("C%d" % (2 * i + 1), "C"))
            names.append(("C%d" % (2 * i + 2), "C"))
    for j, (nm, el) in enumerate(names):
        atoms.append((nm, el, (1.25 * j, 0.42 if j % 2 else -0.42, 0.0)))
    for i in range(n):
        expect["N%d" % (i + 1)] = "N31" if i in (0, n - 1) else "N32"
    return ("PAM", atoms, expect)


FRAGMENTS["triamine"] = polyamine(3)
FRAGMENTS["pentamine"] = polyamine(5)
FRAGMENTS["hexamine"] = polyamine(6)
ALL_LIGAND_TYPES = sorted({t for (_, _, e) in FRAGMENTS.values() for t in e.values()})
