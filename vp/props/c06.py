"""C06 - residue and chain labels identify residues but never influence the numbers."""
import random

RULE = ("each case runs a structure (repository proteins incl. 3SGB with its insertion codes, cut-outs, "
        "chimeras with missing TERs/OXT, constructed insertion-code twins '27'/'27A' of equal and "
        "different residue type at chain starts and inside) and a relabelled copy: a monotone map of "
        "chain identifiers, a per-chain constant shift of residue numbers (also below zero and to the "
        "field limits), or renumbering in file order so that insertion-coded residues get numbers of "
        "their own; 25 % of the built inputs carry two copies of one ligand in two chains and shifts make their "
        "numbers tie. Groups are matched by atom position; pKa, desolvation terms, counts, buried and "
        "determinants (by partner) must be equal (1e-7). Non-trivial: >= 2 chains or a shift that "
        "crosses zero or an insertion code present, and >= 2 titratable groups; distinct = distinct "
        "(structure digest, relabelling)."
        " 20 % of the cases select one chain with -c in both runs (by its old and its new name).")
RULE = RULE + ' Round 8: with identical records the rows of the determinant table and of the summary come in the same order (by atom position) before and after relabelling.'
RULE = RULE + ' Rounds 10-12: order-preserving renumberings that close or open gaps; ligands split over two residue numbers; clusters with coupled groups shifted into four-column numbers.'
ASSUMPTIONS = ["chain maps are order-preserving (the statement's quantifier), so the internal atom sort keeps its order"]
TIMEOUT = {"quick": 1800, "thorough": 10800}
KINDS = ("chain-rename", "shift", "icode-renumber")


def generate(tier, seed):
    from .. import sources
    cases = []
    for name in sources.PROTEINS:
        for k in KINDS:
            cases.append({"kind": "file", "file": name, "relabel": k, "seed": "%d:%s:%s" % (seed, name, k), "cost": 120})
    n = 750 if tier == "quick" else 25000
    for k in range(n):
        cases.append({"kind": ("cutout", "chimera", "twins")[k % 3], "relabel": KINDS[(k // 3) % 3],
                      "seed": "%d:c:%d" % (seed, k), "cost": 14})
    # a histidine hydrogen-bonded to an amide oxygen, the two residues in different chains, and a shift that
    # reverses which of them carries the larger residue number (pair treatment must not follow the numbers)
    for k in range(8 if tier == "quick" else 160):
        cases.append({"kind": "his-amide", "relabel": "shift", "index": k, "seed": "%d:ha:%d" % (seed, k), "cost": 30})
    # a cluster with non-covalently coupled groups whose numbers are shifted into four columns (1000 and above,
    # -100 and below): the labels grow wider, the coupling analysis must not notice
    for k in range(40 if tier == "quick" else 1200):
        cases.append({"kind": "fourdigit", "relabel": "shift", "seed": "%d:fd:%d" % (seed, k), "cost": 14})
    return cases


HIS_ACID_SITES = (("1FTJ-Chain-A.pdb", "A", 46, "A", 42), ("3SGB.pdb", "E", 57, "E", 102),
                  ("4DFR.pdb", "A", 141, "A", 139), ("4DFR.pdb", "B", 141, "B", 139))


def his_amide_case(case, rng, classes):
    """(original records, relabelled records, description) for a his-amide case."""
    import math
    from .. import pdbio, sources
    name, hc, hn, ac, an = HIS_ACID_SITES[case["index"] % len(HIS_ACID_SITES)]
    full = [r for r in sources.full_protein(name) if r.raw is not None or r.alt in (" ", "A")]
    rl = sources.residue_list(full)
    centre = next(i for i, r in enumerate(rl) if r.key[0] == "ATOM  " and r.key[1] == hc and r.key[2] == hn)
    recs, _ = sources.cutout(full, rng, rng.choice((10, 12, 14)), center=centre)
    recs = [r for r in recs if r.raw is not None or r.tag == "ATOM  "]
    his = [a for a in recs if a.raw is None and a.chain == hc and a.resnum == hn and a.aname() in ("ND1", "NE2")]
    out = []
    lo, hi = min(hn, an), max(hn, an)
    cut = rng.randrange(lo + 1, hi + 1)              # residues >= cut of that chain move to chain Q
    for r in recs:
        if r.raw is None:
            r = r.copy()
            r.alt = " "
            if r.chain == ac and r.resnum == an and r.resn in ("ASP", "GLU"):
                ox = [a for a in recs if a.raw is None and a.chain == ac and a.resnum == an and a.aname() in ("OD1", "OD2", "OE1", "OE2")]
                near = min(ox, key=lambda o: min(math.dist((o.x, o.y, o.z), (h.x, h.y, h.z)) for h in his)) if ox and his else None
                new = "ASN" if r.resn == "ASP" else "GLN"
                if r.aname() in ("OD1", "OD2", "OE1", "OE2") and near is not None:
                    if r.akey() == near.akey():
                        r.name = " OD1" if new == "ASN" else " OE1"
                    else:
                        r.name = " ND2" if new == "ASN" else " NE2"
                        if len(r.tail) >= 24:
                            r.tail = r.tail[:22] + " N" + r.tail[24:]
                r.resn = new
            if r.chain == hc and r.resnum >= cut:
                r.chain = "Q"
        out.append(r)
    # TER records where the chain identifier changes
    recs2, prev = [], None
    for r in out:
        if r.raw is not None:
            continue
        if prev is not None and r.chain != prev:
            recs2.append(pdbio.raw("TER"))
        recs2.append(r)
        prev = r.chain
    # the shift: chain Q gets numbers below every number of the other chains (or above, if it was below)
    nq = [r.resnum for r in recs2 if r.raw is None and r.chain == "Q"]
    no = [r.resnum for r in recs2 if r.raw is None and r.chain != "Q"]
    if not nq or not no:
        return None, None, None
    sh = (min(no) - 5 - max(nq)) if rng.random() < 0.7 else rng.choice((-40, 37, min(no) - max(nq) - 200))
    if min(nq) + sh < -999 or max(nq) + sh > 9999:
        sh = min(no) - 5 - max(nq)
    new = []
    for r in recs2:
        if r.raw is None and r.chain == "Q":
            r = r.copy()
            r.resnum += sh
        new.append(r)
    classes.append("his-amide-pair-across-chains")
    return recs2, new, {"shift": {"Q": sh}, "crosses_zero": min(nq) + sh <= 0 < min(nq), "site": "%s %s%d/%s%d" % (name, hc, hn, ac, an)}


def setup(tier):
    from .. import contracts
    contracts.import_all_propka()


def has_twins(recs):
    seen = {}
    for r in recs:
        if r.raw is None:
            seen.setdefault((r.chain, r.resnum), set()).add(r.icode)
    return any(len(v) > 1 for v in seen.values())


def has_icode(recs):
    return any(r.raw is None and r.icode != " " for r in recs)


def make_twins(recs, rng):
    """Give some residues the number of their predecessor plus an insertion code."""
    from .. import sources
    rl = sources.residue_list(recs)
    out = []
    n = 0
    prev = None
    for i, res in enumerate(rl):
        make = prev is not None and not res.ter_before and res.key[0] == "ATOM  " and prev.key[0] == "ATOM  " \
            and res.key[1] == prev.key[1] and rng.random() < 0.15
        if i == 1 and rng.random() < 0.3 and not res.ter_before:
            make = True
        if make:
            num = out[-1].resnum
            ic = "A" if out[-1].icode == " " else chr(ord(out[-1].icode) + 1)
            for a in res.atoms:
                a = a.copy()
                a.resnum, a.icode = num, ic
                out.append(a)
            n += 1
        else:
            if res.ter_before and out:
                from .. import pdbio
                out.append(pdbio.raw("TER"))
            out.extend(a.copy() for a in res.atoms)
        prev = res
    return out, n


def split_chains(recs, rng, classes):
    """Cut the protein chains of a real structure into 2-3 chains each (new identifiers, TER in between),
    so that residues in contact - hydrogen-bonded pairs of every kind - sit in different chains and the
    relabelling can change which of the two carries the larger number. 30 % of the time an ASP/GLU next
    to a HIS ring is written as ASN/GLN (an amide partner for the histidine)."""
    import math
    from .. import pdbio, sources
    rl = sources.residue_list(recs)
    used = {r.chain for r in recs if r.raw is None}
    pool = [c for c in "GHJKLMNOPQRSTUVW" if c not in used]
    rng.shuffle(pool)
    if rng.random() < 0.3:
        his = [a for r in rl if r.key[4] == "HIS" for a in r.atoms if a.aname() in ("ND1", "NE2")]
        for r in rl:
            if r.key[0] == "ATOM  " and r.key[4] in ("ASP", "GLU"):
                ox = [a for a in r.atoms if a.aname() in ("OD1", "OD2", "OE1", "OE2")]
                if len(ox) == 2 and any(math.dist((o.x, o.y, o.z), (h.x, h.y, h.z)) < 3500 for o in ox for h in his):
                    new = "ASN" if r.key[4] == "ASP" else "GLN"
                    far = max(ox, key=lambda o: min(math.dist((o.x, o.y, o.z), (h.x, h.y, h.z)) for h in his))
                    for k, a in enumerate(r.atoms):
                        a = a.copy()
                        a.resn = new
                        if a is not None and r.atoms[k] is far:
                            a.name = " ND2" if new == "ASN" else " NE2"
                            if len(a.tail) >= 24:
                                a.tail = a.tail[:22] + " N" + a.tail[24:]
                        elif r.atoms[k] in ox:
                            a.name = " OD1" if new == "ASN" else " OE1"
                        r.atoms[k] = a
                    r.key = r.key[:4] + (new,)
                    classes.append("his-amide-pair-made")
                    break
    out = []
    cur_old, cur_new, count = None, None, 0
    for r in rl:
        if r.key[0] != "ATOM  ":
            out.extend(r.atoms)
            continue
        if r.key[1] != cur_old or r.ter_before:
            cur_old, cur_new, count = r.key[1], r.key[1], 0
            if out and r.ter_before:
                out.append(pdbio.raw("TER"))
        elif count >= 3 and pool and rng.random() < 0.12:
            out.append(pdbio.raw("TER"))
            cur_new, count = pool.pop(), 0
        for a in r.atoms:
            if cur_new != a.chain:
                a = a.copy()
                a.chain = cur_new
            out.append(a)
        count += 1
    classes.append("chains-split")
    return out


def relabel(recs, kind, rng):
    """Returns (new records, description)."""
    chains = []
    for r in recs:
        if r.raw is None and r.chain not in chains:
            chains.append(r.chain)
    out = []
    if kind == "chain-rename":
        # monotone map: sorted ids -> sorted new ids
        srt = sorted(chains)
        u = rng.random()
        if u < 0.25 and len(srt) <= 52:
            # identifiers that differ only in case
            letters = rng.sample("ABCDEFGH" if len(srt) <= 16 else "ABCDEFGHIJKLMNOPQRSTUVWXYZ", (len(srt) + 1) // 2)
            pool = sorted([c for l in letters for c in (l, l.lower())][:len(srt)])
        elif u < 0.5:
            # the first chain becomes the blank identifier, 'A' is in use as well
            pool = sorted(set([" ", "A"] + rng.sample("BCDEFGHIJKLMNOPQRSTUVWXYZ", max(0, len(srt) - 2))))[:len(srt)]
            if len(pool) < len(srt):
                pool = sorted(rng.sample("ABCDEFGHIJKLMNOPQRSTUVWXYZ", len(srt)))
        else:
            pool = sorted(rng.sample("ABCDEFGHIJKLMNOPQRSTUVWXYZabcdefghijklmnopqrstuvwxyz0123456789", len(srt)))
        m = dict(zip(srt, pool))
        for r in recs:
            if r.raw is None:
                r = r.copy()
                r.chain = m[r.chain]
            out.append(r)
        return out, {"map": m}
    if kind == "shift":
        lo = {c: min(r.resnum for r in recs if r.raw is None and r.chain == c) for c in chains}
        hi = {c: max(r.resnum for r in recs if r.raw is None and r.chain == c) for c in chains}
        sh = {}
        if rng.random() < 0.2:
            # not a shift but another order-preserving renumbering: the distinct numbers of a chain, in increasing
            # order, become consecutive numbers (gaps closed) or every second / third number (gaps opened)
            step = rng.choice((1, 1, 2, 3))
            maps = {}
            for c in chains:
                nums = sorted({r.resnum for r in recs if r.raw is None and r.chain == c})
                start = rng.choice((1, nums[0], -5, 100))
                if start + step * len(nums) > 9999:
                    start = 1
                maps[c] = {n_: start + step * k_ for k_, n_ in enumerate(nums)}
            for r in recs:
                if r.raw is None:
                    r = r.copy()
                    r.resnum = maps[r.chain][r.resnum]
                out.append(r)
            return out, {"shift": "monotone map, step %d" % step, "crosses_zero": False, "packed": False}
        packed = None
        if len(chains) >= 2 and all(c.strip() for c in chains) and rng.random() < 0.25:
            # all chains shifted so that their numbers differ by a round multiple of the distance of their
            # identifiers (a packed key such as 1000*ord(chain)+number would then confuse them)
            base_ = rng.choice((100, 256, 1000, 1000))
            first = chains[0]
            for start in (0, 1000, 2000, 3000, -lo[first], 5000):
                trial = {first: start}
                for c in chains[1:]:
                    trial[c] = start - base_ * (ord(c) - ord(first))
                if all(-999 <= lo[c] + trial[c] and hi[c] + trial[c] <= 9999 for c in chains):
                    packed = trial
                    break
        for c in chains:
            if packed:
                sh[c] = packed[c]
                continue
            choices = [rng.randrange(-50, 50), -lo[c] - rng.randrange(0, (hi[c] - lo[c]) + 1), -999 - lo[c], 9999 - hi[c],
                       rng.randrange(100, 3000), 0, 1, -1, -(lo[c] + hi[c]) // 2, -(lo[c] + hi[c]) // 2]
            prev = chains[chains.index(c) - 1] if chains.index(c) > 0 else None
            if prev is not None:
                # coincidences between neighbouring chains: the first number of this chain equals
                # the last / the first number of the previous chain
                first_c = next(r.resnum for r in recs if r.raw is None and r.chain == c)
                last_p = [r.resnum for r in recs if r.raw is None and r.chain == prev][-1] + sh[prev]
                first_p = next(r.resnum for r in recs if r.raw is None and r.chain == prev) + sh[prev]
                choices += [last_p - first_c, first_p - first_c, last_p - first_c, first_p - first_c]
            if prev is not None and c.strip() and prev.strip():
                # numbers of two chains that differ by a round multiple of the distance between their
                # identifiers (what a packed key such as 1000*ord(chain)+number would confuse)
                dl = ord(c) - ord(prev)
                for base_ in (100, 256, 1000):
                    choices += [sh[prev] - base_ * dl, sh[prev] + base_ * dl]
            # a hetero residue of this chain gets the number of a like-named hetero residue of an
            # earlier chain (two copies of a ligand that differ in the chain identifier only)
            het_c = sorted({(r.resn, r.resnum) for r in recs if r.raw is None and r.chain == c and r.tag == "HETATM"})
            ties = []
            for p_ in chains[:chains.index(c)]:
                for (rn, num) in sorted({(r.resn, r.resnum) for r in recs if r.raw is None and r.chain == p_ and r.tag == "HETATM"}):
                    ties += [num + sh[p_] - n2 for (rn2, n2) in het_c if rn2 == rn]
            if ties:
                choices += [rng.choice(ties)] * 6
            s = rng.choice(choices)
            if lo[c] + s < -999 or hi[c] + s > 9999:
                s = 0
            sh[c] = s
        for r in recs:
            if r.raw is None:
                r = r.copy()
                r.resnum += sh[r.chain]
            out.append(r)
        crosses = any(lo[c] + sh[c] <= 0 < lo[c] or (lo[c] + sh[c] < 0 <= hi[c] + sh[c]) for c in chains)
        return out, {"shift": sh, "crosses_zero": crosses, "packed": bool(packed)}
    # icode-renumber: number residues in file order per chain, blank insertion codes
    cur = {}
    last = {}
    for r in recs:
        if r.raw is None:
            key = (r.tag, r.chain, r.resnum, r.icode, r.resn)
            if last.get(r.chain) != key:
                if r.chain not in cur:
                    cur[r.chain] = r.resnum
                else:
                    # keep gaps of the original numbering, but never reuse a number
                    prevkey = last[r.chain]
                    gap = r.resnum - prevkey[2]
                    cur[r.chain] += max(1, gap)
                last[r.chain] = key
            r = r.copy()
            r.resnum, r.icode = cur[r.chain], " "
        out.append(r)
    return out, {"renumbered": True}


def run_case(case, tier):
    from .. import obs, pdbio, sources, util
    rng = random.Random(case["seed"])
    viol, counts, classes = [], {}, []
    kind = case["relabel"]
    preset = None
    if case["kind"] == "his-amide":
        recs, new_, rdesc_ = his_amide_case(case, rng, classes)
        if recs is None:
            return util.finish(case, viol, counts, classes, False, {"skipped": "site not in the cut-out"}, inconclusive="no site")
        preset = (new_, rdesc_)
    elif case["kind"] == "fourdigit":
        from .c15 import cluster_cutout
        for _try in range(5):
            recs = cluster_cutout(rng)
            probe_ = obs.run_single(pdbio.dump(recs), write_pka=False)
            if probe_.rec and any(g_["ncov"] for g_ in probe_.rec["confs"][probe_.rec["names"][0]]["groups"]):
                classes.append("coupled-groups-in-the-cluster")
                break
        new_ = []
        sh_ = {}
        for c_ in sorted({r.chain for r in recs if r.raw is None}):
            nums_ = [r.resnum for r in recs if r.raw is None and r.chain == c_]
            s_ = rng.choice((1000, 1500, 3000, 9000 - max(nums_), -100 - max(nums_), -900 - min(nums_)))
            if min(nums_) + s_ < -999 or max(nums_) + s_ > 9999:
                s_ = 1000 if max(nums_) + 1000 <= 9999 else 0
            sh_[c_] = s_
        for r in recs:
            if r.raw is None:
                r = r.copy()
                r.resnum += sh_[r.chain]
            new_.append(r)
        preset = (new_, {"shift": sh_, "crosses_zero": False, "packed": False, "four_columns": True})
        classes.append("numbers-shifted-into-four-columns")
    elif case["kind"] == "file":
        recs = sources.full_protein(case["file"])
    elif case["kind"] == "cutout":
        recs = sources.random_small_structure(rng, 80, 900)
    elif case["kind"] == "chimera":
        recs, _ = sources.chimera(rng, allow_blank=True)
    else:
        base = sources.random_small_structure(rng, 80, 700) if rng.random() < 0.6 else sources.chimera(rng, allow_blank=True)[0]
        recs, ntw = make_twins(base, rng)
    if case["kind"] in ("cutout", "twins") and rng.random() < 0.35:
        recs = split_chains(recs, rng, classes)
    if case["kind"] not in ("file", "his-amide", "fourdigit") and rng.random() < 0.25:
        # two copies of one ligand in two chains, under different residue numbers
        from .. import fragments
        from .c16 import titratable_anchor
        chs = sorted({r.chain for r in recs if r.raw is None and r.chain != " "})
        chs = (chs + ["L", "M"])[:2] if len(chs) < 2 else rng.sample(chs, 2)
        fname = rng.choice(sorted(fragments.FRAGMENTS))
        for ch, num in zip(chs, (rng.randrange(600, 900), rng.randrange(901, 990))):
            frag, _e, _d = fragments.place_near(recs, fname, rng, anchor=titratable_anchor(recs, rng),
                                                dist_A=rng.choice((3.0, 3.5, 4.5, 6.0)), chain=ch, resnum=num)
            if frag:
                recs = recs + frag
        classes.append("ligand-copies-in-two-chains")
    if case["kind"] not in ("file", "his-amide", "fourdigit") and rng.random() < 0.2:
        # a ligand deposited as two linked hetero residues (numbers n and n + 2): its groups are a few bonds apart
        # and in different residues, with a gap in the numbering that an order-preserving renumbering may close
        from .. import fragments
        from .c16 import titratable_anchor
        fname = rng.choice(("ethylenediamine", "triamine", "pentamine", "hexamine", "methylphosphate"))
        num = rng.randrange(500, 590)
        frag, _e, _d = fragments.place_near(recs, fname, rng, anchor=titratable_anchor(recs, rng), dist_A=rng.choice((3.5, 4.5, 6.0)),
                                            chain=rng.choice(sorted({r.chain for r in recs if r.raw is None})), resnum=num)
        if frag:
            recs = recs + fragments.split_over_two_residues(frag, num + 2)
            classes.append("ligand-split-over-two-residues")
    if not sources.identities_unique(recs):
        return util.finish(case, viol, counts, classes, False, {"skipped": "two residues share one identity"},
                           inconclusive="ill-formed")
    new, rdesc = preset if preset else relabel(recs, kind, rng)
    # a relabelling must keep the field limits
    if any(r.raw is None and not (-999 <= r.resnum <= 9999) for r in new):
        return util.finish(case, viol, counts, classes, False, {"skipped": "number out of field"}, inconclusive="field")
    ta, tb = pdbio.dump(recs), pdbio.dump(new)
    opts = ["-d"] if rng.random() < 0.15 else util.neutral_options(rng, families=("display", "grid", "protonation", "keep"), classes=classes)
    opts_b = list(opts)
    if rng.random() < 0.2:
        # the same chain selected in both: by its old name in the original, by its new name in the copy
        ids = sorted({r.chain for r in recs if r.raw is None})
        pick = rng.choice(ids)
        opts, opts_b = opts + ["-c", pick], opts_b + ["-c", rdesc.get("map", {}).get(pick, pick)]
        classes.append("with-chain-selection")
    if "-c" not in opts and rng.random() < (0.4 if has_twins(recs) else 0.15):
        # a titrate-only list naming the same residues under their old and their new labels
        a_at, b_at = pdbio.atoms(recs), pdbio.atoms(new)
        if len(a_at) == len(b_at):
            m_ = {}
            for x, y in zip(a_at, b_at):
                m_[(x.chain, x.resnum, x.icode)] = (y.chain, y.resnum, y.icode)
            cand = [k_ for k_ in util.titratable_residues(recs) if k_ in m_ and k_[0] != " " and m_[k_][0] != " "]
            if cand:
                pick = rng.sample(cand, min(len(cand), rng.choice((1, 2, 4))))
                # a residue that shares its number with an insertion-coded neighbour, when there is one
                nums = {}
                for k_ in m_:
                    nums.setdefault((k_[0], k_[1]), set()).add(k_[2])
                tw_ = [k_ for k_ in cand if len(nums[(k_[0], k_[1])]) > 1]
                if tw_ and rng.random() < 0.7:
                    pick = [rng.choice(tw_)] + [k_ for k_ in pick if (k_[0], k_[1]) != (pick[0][0], pick[0][1])][:2]
                    pick = list(dict.fromkeys(pick))
                    classes.append("twin-residue-listed")
                opts = opts + ["-i", ",".join(util.res_arg(k_) for k_ in pick)]
                opts_b = opts_b + ["-i", ",".join(util.res_arg(m_[k_]) for k_ in pick)]
                classes.append("with-titrate-only-list")
    ra = obs.run_single(ta, opts)
    rb = obs.run_single(tb, opts_b)
    counts["pipeline_runs"] = 2
    counts["comparisons"] = 1
    counts["relabel:" + kind] = 1
    twins = has_twins(recs)
    diffs = obs.compare_runs(ra, rb, tol=1e-7)
    if not diffs and ra.rec and rb.rec:
        # which groups are (non-)covalently coupled, and to whom, must not depend on labels either
        for cname in ra.rec["names"]:
            ia, _ = obs.index_groups(ra.rec["confs"][cname])
            ib, _ = obs.index_groups(rb.rec["confs"][cname])
            for k, g in ia.items():
                h = ib.get(k)
                if h is None:
                    continue
                for fld in ("ncov", "cov"):
                    if sorted(map(tuple, g[fld])) != sorted(map(tuple, h[fld])):
                        diffs.append((cname, "coupling", g["label"], fld, len(g[fld]), len(h[fld])))
                if (g["ctg"] is None) != (h["ctg"] is None):
                    diffs.append((cname, "coupling", g["label"], "penalised", g["ctg_label"], h["ctg_label"]))
    if not diffs and ra.rec and rb.rec and ra.text and rb.text and not twins:
        # the report lists the same groups in the same order: rows of the determinant table and of the summary,
        # identified by the position of the group's atom
        def order(run):
            by = {}
            for g in run.rec["confs"]["AVR"]["groups"]:
                by.setdefault(g["label"], []).append((tuple(g["akey"]), g["type"]))
            parsed = obs.parse_pka_text(run.text)
            tab = [by[r["label"]][0] for r in obs.parse_det_rows(parsed["det_rows"]) if len(by.get(r["label"], ())) == 1]
            summ = [by[r["label"]][0] for r in obs.parse_summary(parsed["summary"]) if len(by.get(r["label"], ())) == 1]
            return tab, summ
        try:
            (tab_a, sum_a), (tab_b, sum_b) = order(ra), order(rb)
        except ValueError:
            tab_a = tab_b = sum_a = sum_b = []
        counts["report_rows_ordered"] = counts.get("report_rows_ordered", 0) + len(tab_a)
        for what, xa, xb in (("determinant table", tab_a, tab_b), ("summary", sum_a, sum_b)):
            if xa != xb and sorted(xa) == sorted(xb):
                k_ = next(i for i in range(len(xa)) if xa[i] != xb[i])
                diffs.append(("pka-text", "row-order", what, "row %d" % k_, xa[k_], xb[k_]))
    if diffs:
        single = bool(ra.rec) and len(ra.rec["names"]) == 1
        structural = [d_ for d_ in diffs if len(d_) > 1 and ((single and d_[1] in ("missing-in-a", "missing-in-b")) or (
            d_[1] == "group" and len(d_) > 4 and d_[4] in ("titratable", "use", "type", "rtype", "charge")))]
        if structural and not single:
            # with several conformations the completion step loses whole twin residues in the later ones (part of
            # the same finding); a bridged CYS whose partner is lost that way titrates there - so a change of
            # which groups titrate is only held against the labels where no group went missing in that conformation
            lost = {d_[0] for d_ in diffs if len(d_) > 1 and d_[1] in ("missing-in-a", "missing-in-b")}
            structural = [d_ for d_ in structural if d_[0] not in lost]
        if kind == "icode-renumber" and twins and not structural:
            # the known merging of insertion-code twins moves numbers (desolvation, determinants) and, when
            # conformations are completed, loses atoms of twin residues in the later conformations; which groups
            # titrate and are reported (and, in a single conformation, exist) does not depend on it
            cls = "icode-twins-merged"
        else:
            cls = "labels-influence-results:" + kind
        viol.append({"cls": cls, "msg": "%s %r (twins in input: %s): %s" % (kind, rdesc, twins, obs.brief(structural or diffs, 4)),
                     "detail": {"twins": twins}})
    nchains = len({r.chain for r in recs if r.raw is None})
    ntit = sum(1 for g in ra.rec["confs"]["AVR"]["groups"] if g["titratable"]) if ra.rec else 0
    if twins:
        classes.append("twins")
    if has_icode(recs) and not twins:
        classes.append("icode-without-twins")
    if rdesc.get("crosses_zero"):
        classes.append("shift-crosses-zero")
    classes.append("relabel:" + kind)
    classes.append("chains:%d" % min(nchains, 4))
    nontrivial = (nchains >= 2 or rdesc.get("crosses_zero") or has_icode(recs)) and ntit >= 2
    desc = sources.describe(recs)
    desc.update({"kind": case["kind"], "file": case.get("file"), "relabel": kind, "detail": rdesc, "twins": twins,
                 "exc": ra.exc})
    import hashlib
    return util.finish(case, viol, counts, classes, nontrivial, desc,
                       digest=hashlib.sha1((ta + tb).encode()).hexdigest()[:16])


def verdict(tier, counts, classes, nontrivial, results):
    reasons = []
    for k in KINDS:
        if counts.get("relabel:" + k, 0) == 0:
            reasons.append("relabelling %s never exercised" % k)
    if nontrivial < 8:
        reasons.append("fewer than 8 non-trivial cases")
    return reasons
