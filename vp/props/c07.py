"""C07 - content the model does not use has no effect on any result."""
import random

RULE = ("each case runs a structure (repository proteins, cut-outs, chimeras) once unedited and then "
        "once per edit of one kind: insertion of ignorable hetero residues (HOH H2O SO4 PO4 PEG EPE "
        "TRS) anywhere incl. inside residues and before the first atom; insertion of hydrogens (the "
        "program's own, or random ones named by the PDB convention) without -k; insertion of "
        "REMARK/ANISOU/CONECT/SEQRES/HETNAM/SIGATM/MASTER/END/blank records anywhere; DOS line endings and lines padded to 80 columns; rewriting the "
        "serial, occupancy, B-factor, segment, element and charge columns or truncating lines after "
        "column 54; --protonate-all; -k with the program's own hydrogens written back (amino-acid "
        "structures only); 35 % of the cut-outs carry 1-2 ligands of the fragment library next to an "
        "ionizable side chain. Oracle: all group records of all conformations and AVR equal (1e-7; the "
        "whole .pka text identical for pure input edits). Non-trivial: the edit touched >= 1 % of the "
        "lines or added >= 10 atoms and the structure has >= 2 titratable groups; distinct = distinct "
        "(structure digest, edit kind, edit seed).")
RULE = RULE + ' Rounds 11-12: ligands whose recognition counts nitrogen neighbours come up more often; input hydrogens under alternate-location labels of their own.'
ASSUMPTIONS = ["-k feedback is judged only when no written-back hydrogen lies within 1.5 A of a heavy atom "
               "other than its parent (otherwise bond perception legitimately differs); such cases are "
               "counted as inconclusive"]
TIMEOUT = {"quick": 1800, "thorough": 10800}
EDITS = ("ignorable", "hydrogens-own", "hydrogens-random", "records", "columns", "truncate",
         "protonate-all", "keep-protons-feedback", "hydrogens-random+protonate-all", "ignorable+records+columns",
         "keep-protons-feedback-all", "line-endings")
IGNORABLE = ("HOH", "H2O", "SO4", "PO4", "PEG", "EPE", "TRS")


def generate(tier, seed):
    from .. import sources
    cases = []
    for name in sources.PROTEINS:
        for e in ("ignorable", "protonate-all", "keep-protons-feedback", "columns", "hydrogens-own", "keep-protons-feedback-all"):
            cases.append({"kind": "file", "file": name, "edit": e, "seed": "%d:%s:%s" % (seed, name, e), "cost": 120})
    for name in sources.SMALL + sources.MULTICONF:
        for e in ("records", "ignorable", "protonate-all"):
            cases.append({"kind": "file", "file": name, "edit": e, "seed": "%d:%s:%s" % (seed, name, e), "cost": 4})
    n = 600 if tier == "quick" else 25000
    for k in range(n):
        cases.append({"kind": "cutout", "edit": EDITS[k % len(EDITS)], "seed": "%d:cut:%d" % (seed, k), "cost": 15})
    return cases


def setup(tier):
    from .. import contracts
    contracts.import_all_propka()


def edit_ignorable(recs, rng):
    from .. import pdbio
    atoms = pdbio.atoms(recs)
    n = rng.choice((1, 5, 20, 60))
    out = list(recs)
    for k in range(n):
        a = rng.choice(atoms)
        resn = rng.choice(IGNORABLE)
        name = rng.choice((" O  ", " S  ", " O1 ", " C1 ", " N  ", " P  ", " OH2", " H1 "))
        tag = "HETATM" if rng.random() < 0.85 else "ATOM  "
        r = pdbio.new_atom(tag, "%5d" % (9000 + k), name, resn, rng.choice((a.chain, " ", "W")),
                           rng.choice((a.resnum, 900 + k, -5)), a.x + rng.randrange(-3000, 3000),
                           a.y + rng.randrange(-3000, 3000), a.z + rng.randrange(-3000, 3000))
        pos = rng.choice((0, len(out), rng.randrange(0, len(out) + 1), rng.randrange(0, len(out) + 1)))
        out.insert(pos, r)
    return out, n, n


def edit_hydrogens_random(recs, rng):
    from .. import pdbio
    out = []
    n = 0
    foreign = rng.choice((None, None, "BC", "C", "23", "AB"))
    for r in recs:
        out.append(r)
        if r.raw is None and rng.random() < 0.25:
            for k in range(rng.choice((1, 1, 2, 3))):
                nm = rng.choice((" H  ", " HA ", " HB2", "1HB ", " HG ", "HD11", " HE2", "2HH1", " H1 ", " HZ3", "HH12"))
                # (some of them under an alternate-location label of their own - a hydroxyl hydrogen refined in two or
                # three positions: a label that only ignored atoms carry names no conformation)
                h = pdbio.new_atom(r.tag, "    0", nm, r.resn, r.chain, r.resnum, r.x + rng.randrange(-1100, 1100),
                                   r.y + rng.randrange(-1100, 1100), r.z + rng.randrange(-1100, 1100),
                                   alt=(r.alt if foreign is None or rng.random() < 0.8 else rng.choice(foreign)),
                                   icode=r.icode, tail="  1.00  0.00           H")
                out.append(h)
                n += 1
    return out, n, n


JUNK = ["REMARK 465 MISSING RESIDUES", "ANISOU    1  N   MET A   1     2406   1892   1614    198    519   -328       N",
        "CONECT  413  412  414", "SEQRES   1 A  129  LYS VAL PHE GLY ARG CYS GLU LEU ALA ALA ALA MET LYS",
        "HETNAM     HOH WATER", "SIGATM    1  N   MET A   1       0.010   0.020   0.030  0.00  0.00           N",
        "MASTER      290    0    4    7   14    0    0    6 2015    2    0   19", "END", "", "   ",
        "HEADER    TEST", "CRYST1   52.000   58.600   61.900  90.00  90.00  90.00 P 21 21 21    8",
        "SITE     1 AC1  3 HIS A  94  HIS A  96  HIS A 119", "LINK         SG  CYS A   6                 SG  CYS A 127",
        "SSBOND   1 CYS A    6    CYS A  127", "ATOMS", "TERMINAL", "HET    HOH  A 201       1", "ENDMDL", "ENDMDL"]


def edit_records(recs, rng):
    from .. import pdbio
    out = list(recs)
    n = rng.choice((2, 10, 40))
    for _ in range(n):
        out.insert(rng.randrange(0, len(out) + 1), pdbio.raw(rng.choice(JUNK)))
    if rng.random() < 0.5:
        out.append(pdbio.raw("END"))
    return out, n, 0


def edit_columns(recs, rng):
    from ..oracles import hybrid36_ref as h36
    out = []
    n = 0
    mode = rng.choice(("all", "serial", "occ-b", "element-charge"))
    for r in recs:
        if r.raw is None:
            r = r.copy()
            n += 1
            if mode in ("all", "serial"):
                r.serial = h36.encode(rng.randint(-9999, 87440031), 5)
            tail = (r.tail + " " * 26)[:26]
            occ, b, mid, seg, el, ch = tail[0:6], tail[6:12], tail[12:18], tail[18:22], tail[22:24], tail[24:26]
            if mode in ("all", "occ-b"):
                occ = "%6.2f" % rng.choice((0.0, 0.5, 1.0, 0.33))
                b = "%6.2f" % rng.uniform(0, 99)
            if mode in ("all", "element-charge"):
                el = rng.choice((" C", " N", " O", " H", "FE", "  ", " S", "ZN", " X"))
                ch = rng.choice(("  ", "1+", "1-", "2+"))
                seg = rng.choice(("    ", "SEGA", "PROT"))
            r.tail = occ + b + mid + seg + el + ch
        out.append(r)
    return out, n, 0


def edit_truncate(recs, rng):
    out = []
    n = 0
    for r in recs:
        if r.raw is None:
            r = r.copy()
            r.tail = rng.choice(("", "", "  1.00", "  1.00 20.00"))
            n += 1
        out.append(r)
    return out, n, 0


def amino_only(recs):
    return all(r.raw is not None or r.tag == "ATOM  " for r in recs)


def hydrogen_contacts(recs_with_h):
    """Number of hydrogens within 1.5 A of a heavy atom other than the nearest one."""
    import numpy as np
    from .. import pdbio
    at = pdbio.atoms(recs_with_h)
    H = np.array([(r.x, r.y, r.z) for r in at if r.elem() == "H"], dtype=np.int64)
    X = np.array([(r.x, r.y, r.z) for r in at if r.elem() != "H"], dtype=np.int64)
    if len(H) == 0 or len(X) == 0:
        return 0
    bad = 0
    for i in range(0, len(H), 256):
        d = ((H[i:i + 256, None, :] - X[None, :, :]) ** 2).sum(axis=2)
        bad += int(((d < 1500 ** 2).sum(axis=1) > 1).sum())
    return bad


def without_contact_hydrogens(recs, hyd):
    """The hydrogens whose parent has no hydrogen within 1.5 A of a second heavy atom (such a hydrogen
    is bonded to both by the distance rule when it is read from a file; its parent is left to be
    protonated again by the program, which puts the same hydrogens back)."""
    import numpy as np
    from .. import pdbio
    X = np.array([(r.x, r.y, r.z) for r in pdbio.atoms(recs) if r.elem() != "H"], dtype=np.float64)
    bad_parents = set()
    for h in hyd:
        if not h["parents"]:
            continue
        p = np.array([v * 1000.0 for v in h["xyz"]])
        if int((((X - p) ** 2).sum(axis=1) < 1500.0 ** 2).sum()) > 1:
            bad_parents.add(tuple(h["parents"][0]))
    return [h for h in hyd if h["parents"] and tuple(h["parents"][0]) not in bad_parents], len(bad_parents)


def run_case(case, tier):
    from .. import obs, pdbio, sources, util
    rng = random.Random(case["seed"])
    viol, counts, classes = [], {}, []
    edit = case["edit"]
    if case["kind"] == "file":
        recs = sources.repo_recs(case["file"])
    elif rng.random() < 0.75:
        recs = sources.random_small_structure(rng, 80, 900)
    else:
        recs, _ = sources.chimera(rng)
    feedback = edit in ("keep-protons-feedback", "keep-protons-feedback-all")
    if case["kind"] != "file" and not feedback and rng.random() < 0.35:
        # ligands of the fragment library (amines, amidinium, guanidinium, carboxylate, rings ...)
        # next to an ionizable side chain: their typing must not depend on hydrogens either
        from .. import fragments
        from .c16 import titratable_anchor
        for kfrag in range(rng.choice((1, 1, 2))):
            # (groups recognised by counting the neighbours of their nitrogens come up more often: whether hydrogens
            # are present at that moment depends on the options)
            fname = rng.choice(sorted(fragments.FRAGMENTS) + ["acetamidinium", "methylguanidinium", "aniline", "n-methylacetamide",
                                                               "acetamidinium", "methylguanidinium", "dimethylamine", "trimethylamine"] * 2)
            frag, _e, _d = fragments.place_near(recs, fname, rng, anchor=titratable_anchor(recs, rng),
                                                dist_A=rng.choice((3.0, 3.5, 4.5, 6.0)), resnum=900 + kfrag, min_clear_A=2.7)
            if frag:
                recs = recs + frag
                classes.append("ligand-fragment:" + fname)
    if feedback and not amino_only(recs):
        recs = [r for r in recs if r.raw is not None or r.tag == "ATOM  "]
    recs = sources.no_hydrogens(recs) if feedback else recs
    text = pdbio.dump(recs)
    need_atoms = edit in ("hydrogens-own", "keep-protons-feedback", "keep-protons-feedback-all")
    base = obs.run_single(text, with_atoms=need_atoms)
    counts["pipeline_runs"] = 1
    desc = sources.describe(recs)
    desc.update({"kind": case["kind"], "file": case.get("file"), "edit": edit})
    if base.exc:
        classes.append("raised:" + base.exc_type)
    nlines = len(recs)
    opts = []
    exact_text = True
    tol = 0.0
    touched = added = 0
    inconclusive = None
    if edit == "ignorable":
        new, touched, added = edit_ignorable(recs, rng)
    elif edit == "hydrogens-random":
        new, touched, added = edit_hydrogens_random(recs, rng)
    elif edit == "hydrogens-own":
        if base.exc:
            return util.finish(case, viol, counts, classes, False, desc, inconclusive="base raised")
        hyd = [h for c in base.rec["names"][:1] for h in base.rec["confs"][c]["hydrogens"]]
        new, touched, orphans = sources.with_hydrogens(recs, hyd)
        added = touched
    elif edit == "records":
        new, touched, added = edit_records(recs, rng)
    elif edit == "columns":
        new, touched, added = edit_columns(recs, rng)
    elif edit == "truncate":
        new, touched, added = edit_truncate(recs, rng)
    elif edit == "hydrogens-random+protonate-all":
        # input hydrogens (off the ideal positions) must stay without effect under --protonate-all too
        new, touched, added = edit_hydrogens_random(recs, rng)
        opts, exact_text, tol = ["--protonate-all"], False, 1e-7
    elif edit == "ignorable+records+columns":
        new, t1, a1 = edit_ignorable(recs, rng)
        new, t2, a2 = edit_records(new, rng)
        new, t3, a3 = edit_columns(new, rng)
        touched, added = t1 + t2 + t3, a1 + a2 + a3
    elif edit == "line-endings":
        # the same records with DOS line endings, lines padded with blanks to 80 columns, or both
        new, touched = recs, nlines
        style = rng.choice(("crlf", "padded", "padded+crlf", "trailing-blanks"))
        classes.append("line-endings:" + style)

        def transform(t, style=style):
            lines_ = t.split("\n")
            if "padded" in style:
                lines_ = [l.ljust(80) if l else l for l in lines_]
            if style == "trailing-blanks":
                lines_ = [l + "   " if l else l for l in lines_]
            return ("\r\n" if "crlf" in style else "\n").join(lines_)
    elif edit == "protonate-all":
        new, opts, exact_text, tol = recs, ["--protonate-all"], False, 1e-7
        touched = nlines
    else:
        if base.exc:
            return util.finish(case, viol, counts, classes, False, desc, inconclusive="base raised")
        if len(base.rec["names"]) != 1:
            return util.finish(case, viol, counts, classes, False, desc, inconclusive="multi-conformation input")
        hyd = base.rec["confs"][base.rec["names"][0]]["hydrogens"]
        if edit == "keep-protons-feedback-all":
            # every hydrogen the program can build (--protonate-all), fed back with -k: still the default result
            full = obs.run_single(text, ["--protonate-all"], with_atoms=True, write_pka=False)
            counts["pipeline_runs"] += 1
            if full.exc or len(full.rec["names"]) != 1:
                return util.finish(case, viol, counts, classes, False, desc, inconclusive="--protonate-all run raised")
            hyd = full.rec["confs"][full.rec["names"][0]]["hydrogens"]
        hyd, nbad = without_contact_hydrogens(recs, hyd)
        if nbad:
            classes.append("feedback-without-contact-hydrogens")
        new, touched, orphans = sources.with_hydrogens(recs, hyd)
        added = touched
        opts, exact_text, tol = ["-k"], False, 1e-7
        nc = hydrogen_contacts(new)
        if nc:
            inconclusive = "%d written-back hydrogens within 1.5 A of a second heavy atom" % nc
    edited_text = pdbio.dump(new)
    if edit == "line-endings":
        edited_text = transform(edited_text)
    edited = obs.run_single(edited_text, opts)
    counts["pipeline_runs"] += 1
    counts["comparisons"] = 1
    counts["edit:" + edit] = 1
    if inconclusive:
        counts["inconclusive_feedback"] = 1
        classes.append("feedback-not-judged")
    else:
        diffs = obs.compare_runs(base, edited, tol=tol, text=exact_text)
        if not exact_text and not diffs and base.text and edited.text:
            ta, tb = obs.parse_pka_text(base.text), obs.parse_pka_text(edited.text)
            if ta["summary"] != tb["summary"] or ta["charge"] != tb["charge"] or ta["folding"] != tb["folding"]:
                diffs.append(("pka-text-numbers",))
        if diffs:
            viol.append({"cls": "unused-content-matters:" + edit, "msg": "%s (%d lines touched, %d atoms added): %s" % (
                edit, touched, added, obs.brief(diffs, 4)), "detail": {"opts": opts}})
    ntit = sum(1 for g in base.rec["confs"]["AVR"]["groups"] if g["titratable"]) if base.rec else 0
    nontrivial = (touched >= 0.01 * nlines or added >= 10) and ntit >= 2 and not inconclusive
    classes.append("edit:" + edit)
    desc.update({"touched": touched, "added": added, "opts": opts})
    import hashlib
    return util.finish(case, viol, counts, classes, nontrivial, desc, inconclusive=inconclusive,
                       digest=hashlib.sha1((text + edit + case["seed"]).encode()).hexdigest()[:16])


def verdict(tier, counts, classes, nontrivial, results):
    reasons = []
    for e in EDITS:
        if counts.get("edit:" + e, 0) == 0:
            reasons.append("edit kind %s never exercised" % e)
    if nontrivial < 8:
        reasons.append("fewer than 8 non-trivial cases")
    return reasons
