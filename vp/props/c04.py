"""C04 - predictions do not depend on where the structure sits in space."""
import random

RULE = ("each case takes a structure (repository proteins with their ligands and ions, cut-outs, chimeras) "
        "and a pose T = one of the 24 axis-permuting proper rotations x an integer milli-A translation "
        "(0, +-1..3 mA, multiples of the 2.51 A cell, 100-900 A, the limits of the coordinate field), "
        "and runs both (30 % of the cases with a parameter file that switches on common charge centres). Tier 1 (all structures): bond sets, protein and ion groups, desolvation terms, "
        "counts and buried fractions are equal after mapping back (exact tie guard on the 15/20 A "
        "cut-offs). Tier 2 (amino-acid structures): the program's own hydrogens are written back, moved "
        "with T and both frames are run with -k: every pKa and determinant equal to 1e-7. Tier 3 "
        "(amino-acid structures, program-built hydrogens): hydrogen positions agree after mapping back "
        "within 0.001 A per coordinate; pKa/determinants agree within 0.02, otherwise the original frame "
        "is re-run with -k and the mapped-back hydrogens of the moved run and must reproduce the moved "
        "run to 1e-7 (then the difference is the effect of coordinate rounding). Non-trivial: the "
        "rotation is not the identity or the translation is not a multiple of the cell, and the "
        "structure has >= 3 titratable groups with >= 1 hydrogen-bond determinant; distinct = distinct "
        "(structure digest, pose)."
        " Sweeps also require the disulfide itself (both cysteines bridged) at every offset.")
RULE = RULE + ' Round 8: the written determinant tables of the two frames list the same rows, and the same partners inside a cell, in the same order.'
RULE = RULE + ' Rounds 10-12: a planar group turned into a coordinate plane; several coupled ligand systems under common charge centres; a translation that puts a built hydrogen on coordinate zero; library ligands (iodomethane, sulfate, five-ring ...), also axis-aligned and with records in any order; the order clause of the written table applies to rows with equal printed values.'
ASSUMPTIONS = ["hetero groups are excluded from tiers 2 and 3, as the statement says",
               "a group whose centre has a heavy atom within 1e-6 A^2 of a cut-off sphere is tie-sensitive and not judged"]
TIMEOUT = {"quick": 2400, "thorough": 14400}


def generate(tier, seed):
    from .. import sources
    cases = []
    for name in sources.PROTEINS:
        for k in range(2 if tier == "quick" else 24):
            cases.append({"kind": "file", "file": name, "seed": "%d:%s:%d" % (seed, name, k), "cost": 300})
    n = 300 if tier == "quick" else 20000
    for k in range(n):
        cases.append({"kind": "built", "seed": "%d:b:%d" % (seed, k), "cost": 40})
    # fine translation sweeps of a small disulfide-bonded fragment whose S-S bond lies along a
    # lattice axis: every 0.01 A over 3 A (any cell list must give the same bonds at every offset)
    # two or more covalently coupled systems under common charge centres (ligand fragments with several groups)
    for k in range(40 if tier == "quick" else 1500):
        cases.append({"kind": "ccc", "seed": "%d:ccc:%d" % (seed, k), "cost": 40})
    # a pure translation that puts one of the program's own hydrogens exactly onto the origin
    for k in range(30 if tier == "quick" else 1000):
        cases.append({"kind": "origin", "seed": "%d:org:%d" % (seed, k), "cost": 40})
    n = 6 if tier == "quick" else 60
    for k in range(n):
        cases.append({"kind": "sweep", "axis": k % 3, "seed": "%d:sw:%d" % (seed, k), "cost": 400})
    return cases


def setup(tier):
    from .. import contracts
    contracts.import_all_propka()


def replay_is_faithful(runT, moved, name, counts, popts=()):
    """Does the moved run reproduce itself when its own hydrogens are supplied with -k?"""
    from .. import motion, obs, pdbio, sources
    withh, n, orphans = sources.with_hydrogens(moved, runT.rec["confs"][name]["hydrogens"])
    rk = obs.run_single(pdbio.dump(withh), ["-k"] + list(popts))
    counts["pipeline_runs"] = counts.get("pipeline_runs", 0) + 1
    if rk.exc:
        return False
    return motion.max_pka_difference(rk, runT, lambda k: k) <= 1e-7


_SS = None


def disulfide_fragments():
    """Pairs of CYS-centred tripeptides joined by a disulfide, from the repository proteins."""
    global _SS
    if _SS is None:
        from .. import sources
        _SS = []
        for name in sources.PROTEINS:
            rl = sources.residue_list(sources.full_protein(name))
            cys = [i for i, r in enumerate(rl) if r.key[4] == "CYS" and any(a.aname() == "SG" for a in r.atoms)]
            for x in range(len(cys)):
                for y in range(x + 1, len(cys)):
                    a = [t for t in rl[cys[x]].atoms if t.aname() == "SG"][0]
                    b = [t for t in rl[cys[y]].atoms if t.aname() == "SG"][0]
                    d2 = (a.x - b.x) ** 2 + (a.y - b.y) ** 2 + (a.z - b.z) ** 2
                    if d2 < 2300 ** 2 and 1 <= cys[x] and cys[y] + 1 < len(rl) and abs(cys[x] - cys[y]) > 3:
                        _SS.append((name, cys[x], cys[y]))
    return _SS


def sweep_case(case, rng, viol, counts, classes):
    """Rotate a disulfide fragment so that SG-SG lies along a lattice axis, then translate it in
    0.01 A steps: bonds, bridge flags and group census must be the same at every offset."""
    import math
    from .. import fragments, obs, pdbio, sources
    name, i, j = rng.choice(disulfide_fragments())
    rl = sources.residue_list(sources.full_protein(name))
    atoms = []
    for c, chain in ((i, "A"), (j, "B")):
        for r in rl[c - 1:c + 2]:
            for a in r.atoms:
                a = a.copy()
                a.chain, a.alt = chain, " "
                atoms.append(a)
    sg = [a for a in atoms if a.aname() == "SG"]
    v = [sg[1].x - sg[0].x, sg[1].y - sg[0].y, sg[1].z - sg[0].z]
    n = math.sqrt(sum(c * c for c in v))
    u = [c / n for c in v]
    # rotation taking u onto the chosen axis (Rodrigues about u x e)
    e = [0.0, 0.0, 0.0]
    e[case["axis"]] = rng.choice((1.0, -1.0))
    k = [u[1] * e[2] - u[2] * e[1], u[2] * e[0] - u[0] * e[2], u[0] * e[1] - u[1] * e[0]]
    s_ = math.sqrt(sum(c * c for c in k))
    c_ = sum(u[t] * e[t] for t in range(3))
    if s_ < 1e-9:
        R = [[1, 0, 0], [0, 1, 0], [0, 0, 1]]
    else:
        k = [c / s_ for c in k]
        K = [[0, -k[2], k[1]], [k[2], 0, -k[0]], [-k[1], k[0], 0]]
        K2 = [[sum(K[a][t] * K[t][b] for t in range(3)) for b in range(3)] for a in range(3)]
        R = [[(1 if a == b else 0) + s_ * K[a][b] + (1 - c_) * K2[a][b] for b in range(3)] for a in range(3)]
    o = (sg[0].x, sg[0].y, sg[0].z)
    base = []
    for a in atoms:
        p = (a.x - o[0], a.y - o[1], a.z - o[2])
        q = [R[r][0] * p[0] + R[r][1] * p[1] + R[r][2] * p[2] for r in range(3)]
        a = a.copy()
        a.x, a.y, a.z = int(round(q[0])), int(round(q[1])), int(round(q[2]))
        base.append(a)
    recs = [a for a in base if a.chain == "A"] + [pdbio.raw("TER")] + [a for a in base if a.chain == "B"]
    origin = [rng.randrange(-50000, 50000) for _ in range(3)]
    ref = None
    nsteps = 300
    for step in range(nsteps):
        t = list(origin)
        t[case["axis"]] += 10 * step
        moved = pdbio.move(recs, pdbio.IDENTITY, tuple(t))
        run = obs.run_single(pdbio.dump(moved), with_atoms=True, write_pka=False)
        counts["pipeline_runs"] = counts.get("pipeline_runs", 0) + 1
        counts["sweep_poses"] = counts.get("sweep_poses", 0) + 1
        if run.exc:
            viol.append({"cls": "pose-changes-outcome", "msg": "sweep offset %d mA: %s" % (10 * step, run.exc)})
            break
        conf = run.rec["confs"][run.rec["names"][0]]
        sig = (sorted(((p[0][0], p[0][1] - t[0], p[0][2] - t[1], p[0][3] - t[2]), (p[1][0], p[1][1] - t[0], p[1][2] - t[1], p[1][3] - t[2]))
                      for p in map(lambda b: (tuple(b[0]), tuple(b[1])), conf["bonds"])),
               sorted((g["label"], g["type"], g["bridge"], g["titratable"]) for g in conf["groups"]))
        ncys_bridged = sum(1 for g in conf["groups"] if g["rtype"] == "CYS" and g["bridge"])
        if n < 2490 and ncys_bridged != 2:
            viol.append({"cls": "pose-changes-bonds", "msg": "disulfide fragment of %s, S-S %.3f A along axis %d, offset %.2f A: %d of 2 cysteines are "
                         "flagged as bridged" % (name, n / 1000.0, case["axis"], step / 100.0, ncys_bridged)})
            break
        if ref is None:
            ref = sig
        elif sig != ref:
            lost = [b for b in ref[0] if b not in sig[0]][:2]
            flags = [g for g in sig[1] if g not in ref[1]][:2]
            viol.append({"cls": "pose-changes-bonds", "msg": "disulfide fragment of %s, S-S along axis %d: at offset %.2f A the perceived bonds / groups differ "
                         "from offset 0 (bonds lost %r, groups now %r)" % (name, case["axis"], step / 100.0, lost, flags)})
            break
    classes.append("sweep-axis:%d" % case["axis"])
    return {"kind": "sweep", "file": name, "cys": (i, j), "axis": case["axis"], "steps": nsteps, "ss_length_A": n / 1000.0}


PLANAR = {"ARG": ("NE", "CZ", "NH1", "NH2"), "ASN": ("CB", "CG", "OD1", "ND2"), "GLN": ("CG", "CD", "OE1", "NE2"),
          "HIS": ("CG", "ND1", "CD2", "CE1", "NE2"), "TRP": ("CD1", "NE1", "CE2", "CG", "CD2")}


def flatten_group(recs, rng):
    """The whole structure turned (a real rotation, coordinates rounded to the grid afterwards) so that the
    plane of one guanidinium / amide / ring lies in a coordinate plane, and that group's planar atoms put
    exactly into the plane - the geometry of model-built structures: the normal of the group, about which
    its hydrogens are turned into place, is then exactly +-z (and +-x, +-y in the lattice poses)."""
    import numpy as np
    from .. import sources
    rl = [r for r in sources.residue_list(recs) if r.key[0] == "ATOM  " and r.key[4] in PLANAR
          and {a.aname() for a in r.atoms} >= set(PLANAR[r.key[4]])]
    if not rl:
        return None
    res = rng.choice(rl)
    names = PLANAR[res.key[4]]
    P = np.array([(a.x, a.y, a.z) for a in res.atoms if a.aname() in names], dtype=float)
    c = P.mean(axis=0)
    _u, _s, vt = np.linalg.svd(P - c)
    n = vt[2]
    if rng.random() < 0.5:
        n = -n
    z = np.array([0.0, 0.0, 1.0])
    v = np.cross(n, z)
    sn, cs = np.linalg.norm(v), float(np.dot(n, z))
    if sn < 1e-9:
        R = np.eye(3) if cs > 0 else np.diag([1.0, -1.0, -1.0])
    else:
        k = v / sn
        K = np.array([[0, -k[2], k[1]], [k[2], 0, -k[0]], [-k[1], k[0], 0]])
        R = np.eye(3) + sn * K + (1 - cs) * (K @ K)
    keys = {a.akey() for a in res.atoms if a.aname() in names}
    out = []
    zs = []
    for r in recs:
        if r.raw is None:
            q = R @ (np.array([r.x, r.y, r.z], dtype=float) - c) + c
            key = r.akey()
            r = r.copy()
            r.x, r.y, r.z = int(round(q[0])), int(round(q[1])), int(round(q[2]))
            if key in keys:
                zs.append(r)
        out.append(r)
    if max(abs(a.x) for a in out if a.raw is None) > 9000000 or max(abs(a.y) for a in out if a.raw is None) > 9000000 \
            or max(abs(a.z) for a in out if a.raw is None) > 9000000:
        return None
    zz = int(round(sum(a.z for a in zs) / float(len(zs))))
    for a in zs:
        a.z = zz
    return out


def run_case(case, tier):
    from .. import motion, obs, pdbio, sources, util
    rng = random.Random(case["seed"])
    viol, counts, classes = [], {}, []
    if case["kind"] == "sweep":
        desc = sweep_case(case, rng, viol, counts, classes)
        return util.finish(case, viol, counts, classes, True, desc)
    variant = case["kind"] if case["kind"] in ("ccc", "origin") else None
    if variant:
        case = dict(case, kind="built")
    if case["kind"] == "file":
        recs = sources.full_protein(case["file"])
    elif rng.random() < 0.7:
        recs = sources.random_small_structure(rng, 80, 900)
    else:
        recs, _ = sources.chimera(rng)
    recs = sources.no_hydrogens(recs)
    if variant == "ccc":
        from .. import fragments
        placed = 0
        for k_, fname in enumerate(rng.sample(("triamine", "pentamine", "hexamine", "ethylenediamine", "methylphosphate", "triamine"), 3)):
            frag, _e, _d = fragments.place_near(recs, fname, rng, dist_A=rng.choice((3.5, 5.0, 7.0)), resnum=930 + k_,
                                                chain=rng.choice(("L", "M")), min_clear_A=3.0)
            if frag:
                recs = recs + frag
                placed += 1
        if placed >= 2:
            classes.append("several-coupled-ligand-systems")
    if case["kind"] == "built" and rng.random() < 0.2:
        # an incomplete residue (a carboxylate without its oxygens, an amide without N, a ring without its
        # nitrogens): whatever stands in for the missing atoms must move with the structure
        cands = sorted({(r.chain, r.resnum, r.icode) for r in recs if r.raw is None and r.resn in ("ASP", "GLU", "ASN", "GLN", "HIS", "ARG", "TYR")})
        if cands:
            kill = rng.choice(cands)
            names = {"ASP": ("OD1", "OD2"), "GLU": ("OE1", "OE2"), "ASN": ("ND2",), "GLN": ("NE2",), "HIS": ("ND1", "CE1", "NE2"),
                     "ARG": ("NH1", "NH2"), "TYR": ("OH",)}
            recs = [r for r in recs if r.raw is not None or (r.chain, r.resnum, r.icode) != kill or r.aname() not in names.get(r.resn, ())]
            classes.append("incomplete-residue")
    if case["kind"] == "built" and variant is None and rng.random() < 0.25:
        # a ligand of the fragment library (every hetero group type, a carbon-iodine bond, a five-ring, a sulfate)
        from .. import fragments
        fname = rng.choice(sorted(fragments.FRAGMENTS) + ["iodomethane"] * 4)
        frag, _e, _d = fragments.place_near(recs, fname, rng, dist_A=rng.choice((3.5, 5.0, 8.0)), resnum=940, min_clear_A=3.0,
                                            lattice=rng.random() < 0.5, shuffle=rng.random() < 0.5)
        if frag:
            recs = recs + frag
            classes.append("library-ligand")
    if case["kind"] == "built" and rng.random() < 0.2:
        flat = flatten_group(recs, rng)
        if flat is not None:
            recs = flat
            classes.append("planar-group-in-a-coordinate-plane")
    rot, trans, tkind, moved = motion.random_pose(rng, recs)
    back_key, inv, tinv = motion.key_mapper(rot, trans)
    back_xyz = motion.float_back(rot, trans)
    desc = sources.describe(recs)
    desc.update({"kind": case["kind"], "file": case.get("file"), "rot": rot, "trans": trans, "trans_kind": tkind})
    t0, tT = pdbio.dump(recs), pdbio.dump(moved)
    # the same parameter file in both frames: common charge centres (absolute positions summed over
    # the atoms of a covalently coupled system), shared determinants, penalised groups kept
    popts = []
    if (case["kind"] == "file" and case["seed"].endswith(":1")) or (case["kind"] != "file" and rng.random() < 0.3) or variant == "ccc":
        ov = {"common_charge_centre": 1, "shared_determinants": rng.choice((0, 1)),
              "remove_penalised_group": rng.choice((0, 1))}
        popts = ["-p", util.write_cfg(ov)]
        desc["params"] = ov
        classes.append("params:common-charge-centre")
    run0 = obs.run_single(t0, popts, with_atoms=True)
    if variant == "origin" and not run0.exc:
        # the frame in which one of the hydrogens the program built (on an atom with two or more heavy
        # neighbours: a position fixed by the geometry) has the coordinates 0.000 0.000 0.000
        hs = [h for h in run0.rec["confs"][run0.rec["names"][0]]["hydrogens"] if h["type"] == "atom" and h["parents"]]
        rng.shuffle(hs)
        for h in hs[:10]:
            t_ = tuple(-int(round(v * 1000)) for v in h["xyz"])
            if rng.random() < 0.5:
                # ... or lies in one coordinate plane only
                ax = rng.randrange(3)
                t_ = tuple(t_[k_] if k_ == ax else rng.randrange(-20000, 20000) for k_ in range(3))
            cand = pdbio.move(recs, pdbio.IDENTITY, t_)
            if pdbio.fits(cand):
                rot, trans, tkind, moved = pdbio.IDENTITY, t_, "hydrogen-at-zero", cand
                back_key, inv, tinv = motion.key_mapper(rot, trans)
                back_xyz = motion.float_back(rot, trans)
                desc.update({"rot": rot, "trans": trans, "trans_kind": tkind})
                tT = pdbio.dump(moved)
                classes.append("a-built-hydrogen-at-coordinate-zero")
                break
    runT = obs.run_single(tT, popts, with_atoms=True)
    counts["pipeline_runs"] = 2
    if run0.exc or runT.exc:
        if run0.exc_type != runT.exc_type:
            viol.append({"cls": "pose-changes-outcome", "msg": "original: %r, moved: %r" % (run0.exc, runT.exc)})
        classes.append("raised")
        return util.finish(case, viol, counts, classes, False, desc, inconclusive="raised")
    # ---- tier 1
    motion.compare_heavy(run0, runT, back_key, viol, counts, classes)
    counts["tier1"] = 1
    if not viol and run0.text and runT.text:
        # the written report: same rows in the same order, and inside a row the same partners in the same
        # order (labels do not move with the frame) wherever both frames list the same partners
        try:
            tab0 = obs.parse_det_rows(obs.parse_pka_text(run0.text)["det_rows"])
            tabT = obs.parse_det_rows(obs.parse_pka_text(runT.text)["det_rows"])
        except ValueError:
            tab0 = tabT = []
        counts["report_rows_compared"] = counts.get("report_rows_compared", 0) + len(tab0)
        # (which rows there are is the business of the comparison above: of two coupled ligand groups on one common
        # charge centre - an exact tie - either may be the one that is kept)
        both = {r_["label"] for r_ in tab0} & {r_["label"] for r_ in tabT}
        same_rows = sorted(r_["label"] for r_ in tab0) == sorted(r_["label"] for r_ in tabT)    # (labels may repeat: two ligands of one name in a chain)
        if same_rows and [r_["label"] for r_ in tab0 if r_["label"] in both] != [r_["label"] for r_ in tabT if r_["label"] in both]:
            viol.append({"cls": "pose-changes-report-order", "msg": "the determinant table lists its groups in another order after the motion"})
        elif [r_["label"] for r_ in tab0] == [r_["label"] for r_ in tabT]:
            for r0_, rT_ in zip(tab0, tabT):
                for t_ in ("sidechain", "backbone", "coulomb"):
                    l0, lT = [x[1] for x in r0_["cells"][t_]], [x[1] for x in rT_["cells"][t_]]
                    # (only for rows whose printed values are all the same in both frames: with ligand hydrogens, which the
                    # statement exempts, the values - and with them the order the iteration adds terms in - may differ)
                    same_values = r0_["pka"] == rT_["pka"] and all(
                        sorted((x[1], x[0]) for x in r0_["cells"][u_]) == sorted((x[1], x[0]) for x in rT_["cells"][u_])
                        for u_ in ("sidechain", "backbone", "coulomb"))
                    if l0 != lT and sorted(l0) == sorted(lT) and same_values:
                        viol.append({"cls": "pose-changes-report-order", "msg": "row %s, %s determinants: %r in the original frame, %r after the motion" % (
                            r0_["label"], t_, l0[:4], lT[:4])})
                        break
                else:
                    continue
                break
    amino = all(r.raw is not None or r.tag == "ATOM  " for r in recs) and len(run0.rec["names"]) == 1
    if viol:
        # tiers 2 and 3 compare pKa values on top of identical heavy-atom quantities; when tier 1
        # already differs they would only repeat the same difference
        counts["tiers23_skipped_after_tier1_difference"] = 1
        amino = False
    ntit = sum(1 for g in run0.rec["confs"]["AVR"]["groups"] if g["titratable"])
    nhb = sum(len(g["det"]["sidechain"]) + len(g["det"]["backbone"]) for g in run0.rec["confs"]["AVR"]["groups"])
    if amino:
        # ---- tier 3a: hydrogens built by the program
        worst = motion.compare_hydrogens(run0, runT, back_xyz, back_key, viol, counts)
        counts["tier3"] = 1
        # ---- tier 3b
        dmax = motion.max_pka_difference(run0, runT, back_key)
        desc["max_delta"] = dmax
        if dmax > 1e-7:
            classes.append("rounding-visible")
        if dmax > 0.02:
            name = run0.rec["names"][0]
            hyd = runT.rec["confs"][name]["hydrogens"]
            # hydrogens of the moved run mapped into the original frame
            mapped = []
            for h in hyd:
                h2 = dict(h)
                h2["xyz"] = back_xyz(h["xyz"])
                h2["parents"] = [back_key(tuple(p)) for p in h["parents"]]
                mapped.append(h2)
            withh, n, orphans = sources.with_hydrogens(recs, mapped)
            from .c07 import hydrogen_contacts
            contacts = hydrogen_contacts(withh)
            runk = obs.run_single(pdbio.dump(withh), ["-k"] + popts)
            counts["pipeline_runs"] += 1
            counts["second_stage_runs"] = counts.get("second_stage_runs", 0) + 1
            d2 = motion.max_pka_difference(runk, runT, back_key) if not runk.exc else float("inf")
            if d2 <= 1e-7 and counts.get("rotor_hydrogens_moved", 0):
                viol.append({"cls": "pka-frame-dependent-via-rotor-hydrogen", "msg": "pKa/determinants differ by %.4g between frames; the difference is reproduced "
                             "exactly by the moved run's hydrogens, %d of which sit on atoms with one heavy neighbour (frame-dependent rotamer)" % (
                                 dmax, counts["rotor_hydrogens_moved"])})
            elif d2 > 1e-7 and contacts:
                # a supplied hydrogen within 1.5 A of a second heavy atom is bonded to both by the
                # distance rule: the -k re-run is not a faithful replay, nothing can be concluded
                counts["second_stage_not_judged"] = counts.get("second_stage_not_judged", 0) + 1
            elif d2 > 1e-7 and not replay_is_faithful(runT, moved, name, counts, popts):
                # feeding hydrogens back with -k does not even reproduce a run in its own frame
                # (that is C07's subject): the instrument of this stage is broken, no verdict
                counts["second_stage_not_judged"] = counts.get("second_stage_not_judged", 0) + 1
                classes.append("replay-instrument-unfaithful")
            elif d2 > 1e-7:
                viol.append({"cls": "pose-changes-pka", "msg": "pKa/determinants differ by %.4g between frames and the difference is not "
                             "reproduced by the moved run's hydrogens in the original frame (residual %.4g)" % (dmax, d2)})
            else:
                classes.append("rounding-amplified")
        # ---- tier 2: keep-protons with the program's own hydrogens
        name = run0.rec["names"][0]
        withh, n, orphans = sources.with_hydrogens(recs, run0.rec["confs"][name]["hydrogens"])
        movedh = pdbio.move(withh, rot, trans)
        from .c07 import hydrogen_contacts
        if pdbio.fits(movedh) and hydrogen_contacts(withh) == 0:
            k0 = obs.run_single(pdbio.dump(withh), ["-k"] + popts)
            kT = obs.run_single(pdbio.dump(movedh), ["-k"] + popts)
            counts["pipeline_runs"] += 2
            counts["tier2"] = 1
            diffs = obs.compare_runs(k0, kT, map_b_to_a=back_key, tol=1e-7)
            # tie guard: n_vol differences at an exact cut-off tie are not judged
            diffs = [d for d in diffs if not (len(d) > 4 and d[4] in ("n_vol",))] if counts.get("tie_sensitive_groups") else diffs
            if diffs:
                viol.append({"cls": "pose-changes-pka-keep-protons", "msg": "with supplied hydrogens (-k): %s" % obs.brief(diffs, 4)})
    else:
        classes.append("hetero-structure-tier1-only")
    if not viol and not popts and rng.random() < 0.5:
        # --protonate-all: its results equal the default ones (C07's subject); if they do so in one frame
        # and not in the other, the option's results depend on the frame
        p0 = obs.run_single(t0, ["--protonate-all"], write_pka=False)
        pT = obs.run_single(tT, ["--protonate-all"], write_pka=False)
        counts["pipeline_runs"] += 2
        counts["protonate_all_poses"] = 1
        if not p0.exc and not pT.exc:
            d0 = motion.max_pka_difference(p0, run0, lambda k: k)
            dT = motion.max_pka_difference(pT, runT, lambda k: k)
            d_pa = motion.max_pka_difference(p0, pT, back_key)
            d_def = motion.max_pka_difference(run0, runT, back_key)
            if (d0 <= 1e-7) != (dT <= 1e-7):
                viol.append({"cls": "pose-changes-pka-protonate-all", "msg": "--protonate-all agrees with the default run in one frame (difference %.3g) "
                             "but not in the other (%.3g)" % (min(d0, dT), max(d0, dT))})
            elif d_pa > 0.02 and d_def <= 0.02:
                viol.append({"cls": "pose-changes-pka-protonate-all", "msg": "with --protonate-all pKa/determinants differ by %.3g between the frames, "
                             "with default options by %.3g" % (d_pa, d_def)})
            classes.append("protonate-all-in-both-frames")
    if popts:
        systems = {frozenset([g["label"]] + list(g["cov"])) for g in run0.rec["confs"][run0.rec["names"][0]]["groups"] if g["cov"]}
        if len(systems) >= 2:
            classes.append("common-charge-centre-with-2-coupled-systems")
            counts["ccc_two_systems"] = 1
    classes.append("trans:" + tkind)
    classes.append("rot:" + ("identity" if rot == pdbio.IDENTITY else "nontrivial"))
    moving = rot != pdbio.IDENTITY or any(t % motion.CELL for t in trans)
    nontrivial = moving and ntit >= 3 and nhb >= 1
    import hashlib
    return util.finish(case, viol, counts, classes, nontrivial, desc,
                       digest=hashlib.sha1((t0 + repr(rot) + repr(trans)).encode()).hexdigest()[:16])


def verdict(tier, counts, classes, nontrivial, results):
    reasons = []
    for t in ("tier1", "tier2", "tier3", "sweep_poses", "protonate_all_poses"):
        if counts.get(t, 0) == 0:
            reasons.append("%s never exercised" % t)
    if counts.get("hydrogens_compared", 0) == 0:
        reasons.append("no hydrogen compared between frames")
    if nontrivial < 8:
        reasons.append("fewer than 8 non-trivial cases")
    if counts.get("ccc_two_systems", 0) == 0:
        reasons.append("common charge centres never exercised with two covalently coupled systems")
    return reasons
