"""C18 - parameter tables are symmetric, complete and self-consistent."""
import itertools
import random

RULE = ("generated cases write a parameter file (random group names, a random triangular interaction matrix "
        "over {I,N,-}, pair cut-off entries in random order with repeats, the default line anywhere, scalar "
        "settings incl. plain and squared cut-offs in random order, comments and blank lines, several default "
        "lines, entries equal to a default, 25 % without a final newline), read it "
        "with the real read_parameter_file and compare every look-up, both ways, with the generating "
        "table; invariants are evaluated after every InteractionMatrix.add / PairwiseMatrix.add and every "
        "assignment to a cut-off. Shipped-file cases: every pair of side-chain group types the program "
        "can create (types of the Group subclasses reachable from is_protein_group / "
        "is_ligand_group_by_groups, read from the live classes, united with the types looked up during "
        "real runs) must have an interaction type; every write-out type that can be created has a model "
        "pKa and a non-zero charge; inner cut-offs < outer. Non-trivial: a generated file with >= 4 "
        "groups and >= 3 pair entries, or a shipped-table pair; distinct = distinct file digests / pairs.")
EXPLANATION = "the shipped-table part enumerates all pairs of creatable side-chain group types (exhaustive for that sub-claim)"
RULE = RULE + ' Round 8: after each real run the parameter tables held by the molecule are compared with a freshly read file.'
RULE = RULE + ' Rounds 9-12: outer cut-offs of ten Angstrom and more in several spellings, zero cut-offs; a contract on the look-up the calculation performs; models whose first one lacks a group type.'
ASSUMPTIONS = ["ION, BBN and BBC never enter the pair loop through the matrix; LG/ALG/BLG and SER are never created "
               "under the shipped configuration (ligand_typing groups; SER-OG maps to ROH)"]
TIMEOUT = {"quick": 1200, "thorough": 7200}


def generate(tier, seed):
    cases = [{"kind": "shipped-pairs", "seed": "%d:shipped" % seed, "cost": 5},
             {"kind": "shipped-scalars", "seed": "%d:scalars" % seed, "cost": 2}]
    n = 600 if tier == "quick" else 30000
    for k in range(n):
        cases.append({"kind": "generated", "seed": "%d:g:%d" % (seed, k), "cost": 1})
    n = 60 if tier == "quick" else 2000
    for k in range(n):
        cases.append({"kind": "layered", "seed": "%d:ly:%d" % (seed, k), "cost": 1})
    n = 48 if tier == "quick" else 1200
    for k in range(n):
        cases.append({"kind": "lookups", "seed": "%d:l:%d" % (seed, k), "cost": 40})
    return cases


LOOKED_UP = {}


def setup(tier):
    from .. import contracts
    import propka.parameters as pp
    contracts.import_all_propka()

    def post_im_add(snap, result, exc, args, kwargs):
        if exc is not None:
            return
        m = args[0]
        contracts.count("interaction_matrix_add")
        for a, row in m.dictionary.items():
            for b, v in row.items():
                if m.dictionary.get(b, {}).get(a, None) != v:
                    contracts.report("matrix-asymmetric-after-add", "%s[%s][%s]=%r but [%s][%s]=%r" % (
                        m.name, a, b, v, b, a, m.dictionary.get(b, {}).get(a)))
                    return
    contracts.install(pp, "add", post=post_im_add, owner=pp.InteractionMatrix)

    def post_pm_add(snap, result, exc, args, kwargs):
        if exc is not None:
            return
        m = args[0]
        contracts.count("pairwise_matrix_add")
        for a, row in m.dictionary.items():
            for b, v in row.items():
                if m.dictionary.get(b, {}).get(a, None) != v:
                    contracts.report("pairwise-asymmetric-after-add", "%s[%s][%s]=%r but reverse %r" % (
                        m.name, a, b, v, m.dictionary.get(b, {}).get(a)))
                    return
    contracts.install(pp, "add", post=post_pm_add, owner=pp.PairwiseMatrix)

    def post_get(snap, result, exc, args, kwargs):
        m, a, b = args[0], args[1], args[2]
        contracts.count("interaction_get_value")
        LOOKED_UP[(a, b)] = result
        if exc is None and result != m.get_value.__wrapped_orig__(m, b, a):
            contracts.report("lookup-asymmetric", "%s.get_value(%r,%r)=%r but reverse %r" % (
                m.name, a, b, result, m.get_value.__wrapped_orig__(m, b, a)))
    contracts.install(pp, "get_value", post=post_get, owner=pp.InteractionMatrix)

    def post_pget(snap, result, exc, args, kwargs):
        m, a, b = args[0], args[1], args[2]
        contracts.count("pairwise_get_value")
        if exc is None and result != m.get_value.__wrapped_orig__(m, b, a):
            contracts.report("lookup-asymmetric", "%s.get_value(%r,%r)=%r but reverse %r" % (
                m.name, a, b, result, m.get_value.__wrapped_orig__(m, b, a)))
    contracts.install(pp, "get_value", post=post_pget, owner=pp.PairwiseMatrix)

    # the look-up the calculation itself performs for a pair of protein atoms: the maximum shift and the
    # cut-offs it works with are those of the tables (whatever conformation the atoms belong to)
    import propka.version as pv

    def post_hb(snap, result, exc, args, kwargs):
        if exc is not None:
            return
        ver, a1, a2 = args[0], args[1], args[2]
        contracts.count("hydrogen_bond_parameter_lookups")
        par = ver.parameters
        want_v = par.sidechain_interaction
        want_c = par.sidechain_cutoffs.get_value(a1.group_type, a2.group_type)
        got_v, got_c = result[0], result[1]
        if got_v != want_v or tuple(got_c) != tuple(want_c):
            contracts.report("calculation-uses-other-values-than-the-tables", "hydrogen-bond parameters for (%s, %s): the calculation works with %r / %r, the tables say %r / %r" % (
                a1.group_type, a2.group_type, got_v, tuple(got_c), want_v, tuple(want_c)))
    contracts.install(pv, "get_hydrogen_bond_parameters", post=post_hb, owner=pv.VersionA)


NAMES = ["COO", "HIS", "CYS", "TYR", "LYS", "ARG", "N+", "AMD", "TRP", "ROH", "CG", "C2N", "N30", "N31", "NAR", "OCO",
         "OH", "O3", "Cl", "F", "NAM", "N1", "O2", "OP", "SH", "X1", "Zz", "a", "LONGNAME", "B-2"]
CUTS = ("desolv_cutoff", "buried_cutoff", "coulomb_cutoff1", "coulomb_cutoff2")


def gen_file(rng):
    n = rng.randint(1, 12)
    names = rng.sample(NAMES, n)
    table = {}
    lines = []
    mlines = []
    for i, a in enumerate(names):
        vals = []
        for j in range(i + 1):
            v = rng.choice("IN-")
            table[(names[j], a)] = v
            table[(a, names[j])] = v
            vals.append(v)
        mlines.append("interaction_matrix %s %s%s" % (a, " ".join(vals), rng.choice(("", "#" + rng.choice(NAMES), "  # c"))))
    # pair entries; the default line(s) are decided first so that some entries can repeat exactly
    # the default in force (an entry equal to the default is still an explicit entry)
    pairs = {}
    plines = []
    default = None
    defaults = []
    if rng.random() < 0.8:
        for _ in range(rng.choice((1, 1, 1, 2, 3))):
            defaults.append((round(rng.uniform(1, 4), 2), round(rng.choice((rng.uniform(4, 7), rng.uniform(10, 15))), 2)))
    npairs = rng.randint(0, 14)
    for _ in range(npairs):
        a, b = rng.choice(names), rng.choice(names)
        if defaults and rng.random() < 0.25:
            v = rng.choice(defaults + [(0.0, 0.0)])
        else:
            # outer cut-offs of ten and more Angstrom as well (long-range pairs), so that the two numbers of a
            # pair differ in their number of digits
            v = (round(rng.uniform(1.5, 9.9), 2), round(rng.choice((rng.uniform(3.5, 6.0), rng.uniform(10.0, 14.0), rng.uniform(9.0, 11.0))), 2))
        fmt = rng.choice(("%.2f %.2f", "%.2f %.2f", "%g %g", "%.1f %.1f", "%05.2f %.2f", "%.3f %.3f"))
        plines.append("sidechain_cutoffs %s %s " % (a, b) + fmt % (v[0], v[1]))
    for d in defaults:
        fmt = rng.choice(("%.2f %.2f", "%g %g", "%.1f %.1f", "%05.2f %.2f"))
        plines.insert(rng.randrange(0, len(plines) + 1), "sidechain_cutoffs default " + fmt % d)
    # scalars
    scal = {}
    slines = []
    for c in CUTS:
        if rng.random() < 0.7:
            zero = rng.random() < 0.12          # a cut-off of exactly zero switches a term off
            if rng.random() < 0.5:
                v = 0.0 if zero else round(rng.uniform(1, 30), 3)
                scal[c] = v
                slines.append("%s %r" % (c, v))
            else:
                v = 0.0 if zero else round(rng.uniform(1, 900), 3)
                scal[c] = v ** 0.5
                slines.append("%s_squared %r" % (c, v))
    for k, v in (("Nmin", rng.randrange(100, 400)), ("Nmax", rng.randrange(401, 900)),
                 ("sidechain_interaction", round(rng.uniform(0.1, 2), 2))):
        if rng.random() < 0.5:
            slines.append("%s %r" % (k, v))
            scal[k] = v
    # matrix rows must stay in order; everything else is shuffled around them
    rest = plines + slines + ["", "# comment line", "   ", "#", "version VersionA"]
    rng.shuffle(rest)
    out = []
    mi = 0
    for line in rest:
        while mi < len(mlines) and rng.random() < 0.5:
            out.append(mlines[mi])
            mi += 1
        out.append(line)
    out.extend(mlines[mi:])
    # with repeated pair entries (and repeated default lines) the last one in FILE order counts
    pairs = {}
    for line in out:
        w = line.split()
        if len(w) == 5 and w[0] == "sidechain_cutoffs":
            pairs[(w[1], w[2])] = (float(w[3]), float(w[4]))
            pairs[(w[2], w[1])] = (float(w[3]), float(w[4]))
        elif len(w) == 4 and w[:2] == ["sidechain_cutoffs", "default"]:
            default = (float(w[2]), float(w[3]))
    text = "\n".join(out) + "\n"
    if rng.random() < 0.25:
        # no newline after the last line (and nothing but a value at its end)
        while out and (not out[-1].strip() or out[-1].lstrip().startswith("#")):
            out.pop()
        text = "\n".join(out)
    return text, names, table, pairs, default, scal


def table_snapshot(params):
    """Plain-data copy of every table of a Parameters object."""
    def plain(v, depth=0):
        if isinstance(v, (int, float, str, bool)) or v is None:
            return v
        if isinstance(v, (list, tuple)):
            return [plain(x, depth + 1) for x in v]
        if isinstance(v, (set, frozenset)):
            return sorted(plain(x, depth + 1) for x in v)
        if isinstance(v, dict):
            return {str(k): plain(x, depth + 1) for k, x in sorted(v.items(), key=lambda kv: str(kv[0]))}
        if depth < 3 and hasattr(v, "__dict__"):
            return {str(k): plain(x, depth + 1) for k, x in sorted(vars(v).items())}
        return repr(type(v))
    return {k: plain(v) for k, v in vars(params).items()}


def creatable_types():
    """Types of the Group subclasses the shipped configuration can create (live classes)."""
    import inspect
    import re
    import propka.group as pg
    from propka.atom import Atom
    from .. import util
    cfg = util.parse_cfg()
    classes = {"NtermGroup", "CtermGroup", "BBNGroup", "BBCGroup", "IonGroup"}
    for v in cfg["protein_group_mapping"].values():
        classes.add(v + "Group")
    src = inspect.getsource(getattr(pg.is_ligand_group_by_groups, "__wrapped_orig__", pg.is_ligand_group_by_groups))
    classes.update(re.findall(r"return (\w+Group)\(", src))
    types = {}
    import logging
    for c in sorted(classes):
        cls = getattr(pg, c)
        a = Atom()
        a.name, a.res_name, a.element = "X1", "UNK", "C"
        a.type = "hetatm"
        g = cls(a)
        types[c] = g.type
    return types


def run_case(case, tier):
    from .. import contracts, util
    rng = random.Random(case["seed"])
    viol, counts, classes = [], {}, []
    kind = case["kind"]
    sample = {"kind": kind}
    nontrivial = True
    nd = []
    if kind == "generated":
        import os
        from propka.input import read_parameter_file
        from propka.parameters import Parameters
        text, names, table, pairs, default, scal = gen_file(rng)
        path = os.path.join(util.worker_tmp(), "gen.cfg")
        with open(path, "w") as fh:
            fh.write(text)
        try:
            p = read_parameter_file(path, Parameters())
        except Exception as e:
            viol.append({"cls": "generated-file-rejected", "msg": "%s: %r\n%s" % (type(e).__name__, e, text[:400])})
            return util.finish(case, viol, counts, classes, False, sample)
        counts["files_read"] = 1
        for a in names + ["ghost"]:
            for b in names + ["ghost"]:
                counts["lookups_checked"] = counts.get("lookups_checked", 0) + 2
                want = table.get((a, b))
                got = p.interaction_matrix.get_value(a, b)
                if got != want:
                    viol.append({"cls": "matrix-lookup-wrong", "msg": "interaction(%s,%s)=%r, file says %r" % (a, b, got, want)})
                wantc = pairs.get((a, b), default if default is not None else (0.0, 0.0))
                gotc = p.sidechain_cutoffs.get_value(a, b)
                if tuple(gotc) != tuple(wantc):
                    cls = "pairwise-default-wrong" if (a, b) not in pairs else "pairwise-lookup-wrong"
                    viol.append({"cls": cls, "msg": "cutoffs(%s,%s)=%r, file says %r (default %r)" % (a, b, gotc, wantc, default)})
        for c in CUTS:
            plain = getattr(p, c)
            sq = getattr(p, c + "_squared")
            counts["square_checks"] = counts.get("square_checks", 0) + 1
            if abs(sq - plain * plain) > 1e-9 * max(1.0, sq):
                viol.append({"cls": "squared-inconsistent", "msg": "%s=%r but %s_squared=%r" % (c, plain, c, sq)})
            if c in scal and abs(plain - scal[c]) > 1e-9 * max(1.0, plain):
                viol.append({"cls": "scalar-wrong", "msg": "%s=%r, file implies %r" % (c, plain, scal[c])})
            # assignment to either side keeps them consistent
            v = rng.uniform(1, 40)
            setattr(p, c, v)
            if abs(getattr(p, c + "_squared") - v * v) > 1e-9 * v * v:
                viol.append({"cls": "squared-inconsistent", "msg": "after %s=%r: squared %r" % (c, v, getattr(p, c + "_squared"))})
            setattr(p, c + "_squared", v)
            if abs(getattr(p, c) ** 2 - v) > 1e-9 * v:
                viol.append({"cls": "squared-inconsistent", "msg": "after %s_squared=%r: plain %r" % (c, v, getattr(p, c))})
        for k in ("Nmin", "Nmax", "sidechain_interaction"):
            if k in scal and getattr(p, k) != scal[k]:
                viol.append({"cls": "scalar-wrong", "msg": "%s=%r, file says %r" % (k, getattr(p, k), scal[k])})
        nontrivial = len(names) >= 4 and len(pairs) >= 3
        sample.update({"groups": names, "pairs": len(pairs) // 2, "default": default, "head": text.split("\n")[:4]})
        import hashlib
        dg = hashlib.sha1(text.encode()).hexdigest()[:16]
        return util.finish(case, viol, counts, classes, nontrivial, sample, evals=1, digest=dg)
    if kind == "layered":
        # a Parameters object that has been used (look-ups made) and then receives a second file:
        # afterwards every look-up must reflect both files, the later entries and default winning
        import os
        from propka.input import read_parameter_file
        from propka.parameters import Parameters
        t1, names1, table1, pairs1, default1, scal1 = gen_file(rng)
        t2, names2, table2, pairs2, default2, scal2 = gen_file(rng)
        # the second file must not re-declare matrix rows (rows are positional): keep pairs/default/scalars only
        t2 = "\n".join(l for l in t2.split("\n") if not l.startswith("interaction_matrix")) + "\n"
        p1, p2 = os.path.join(util.worker_tmp(), "l1.cfg"), os.path.join(util.worker_tmp(), "l2.cfg")
        open(p1, "w").write(t1)
        open(p2, "w").write(t2)
        p = read_parameter_file(p1, Parameters())
        allnames = sorted(set(names1) | set(names2)) + ["ghost"]
        for _ in range(rng.randrange(0, 40)):
            a, b = rng.choice(allnames), rng.choice(allnames)
            p.sidechain_cutoffs.get_value(a, b)
            p.interaction_matrix.get_value(a, b)
            getattr(p, rng.choice(CUTS) + "_squared")
        p = read_parameter_file(p2, p)
        counts["files_read"] = 2
        counts["layered_files"] = 1
        merged = dict(pairs1)
        merged.update(pairs2)
        default = default2 if default2 is not None else (default1 if default1 is not None else (0.0, 0.0))
        for a in allnames:
            for b in allnames:
                counts["lookups_checked"] = counts.get("lookups_checked", 0) + 1
                want = merged.get((a, b), default)
                got = p.sidechain_cutoffs.get_value(a, b)
                if tuple(got) != tuple(want):
                    viol.append({"cls": "layered-file-lookup-wrong", "msg": "after a second file: cutoffs(%s,%s)=%r, the two files say %r (default %r)" % (a, b, got, want, default)})
                    break
        for c in CUTS:
            counts["square_checks"] = counts.get("square_checks", 0) + 1
            plain, sq = getattr(p, c), getattr(p, c + "_squared")
            if abs(sq - plain * plain) > 1e-9 * max(1.0, sq):
                viol.append({"cls": "squared-inconsistent", "msg": "after a second file: %s=%r but squared=%r" % (c, plain, sq)})
            want = scal2.get(c, scal1.get(c))
            if want is not None and abs(plain - want) > 1e-9 * max(1.0, plain):
                viol.append({"cls": "scalar-wrong", "msg": "after a second file: %s=%r, files imply %r" % (c, plain, want)})
        import hashlib
        return util.finish(case, viol, counts, classes, True, {"kind": "layered", "groups": len(allnames)}, evals=1,
                           digest=hashlib.sha1((t1 + t2).encode()).hexdigest()[:16])
    # ---- shipped configuration
    from propka.input import read_parameter_file
    from propka.parameters import Parameters
    p = read_parameter_file(util.cfg_path(), Parameters())
    cfg = util.parse_cfg()
    if kind == "shipped-pairs":
        types = creatable_types()
        side = sorted({t for c, t in types.items() if "BB" not in t and t != "ION"})
        sample["types"] = side
        for a, b in itertools.combinations_with_replacement(side, 2):
            counts["shipped_pairs"] = counts.get("shipped_pairs", 0) + 1
            nd.append("pair:%s-%s" % (a, b))
            v1, v2 = p.interaction_matrix.get_value(a, b), p.interaction_matrix.get_value(b, a)
            if v1 is None or v1 not in ("I", "N", "-") or v1 != v2:
                cls = "no-interaction-type:Cl" if "Cl" in (a, b) else "no-interaction-type"
                viol.append({"cls": cls, "msg": "group types %s and %s can be created but interaction_matrix gives %r / %r" % (a, b, v1, v2)})
            c1, c2 = p.sidechain_cutoffs.get_value(a, b), p.sidechain_cutoffs.get_value(b, a)
            if tuple(c1) != tuple(c2) or not c1[0] < c1[1]:
                viol.append({"cls": "cutoffs-inconsistent", "msg": "sidechain_cutoffs(%s,%s)=%r reverse %r" % (a, b, c1, c2)})
        # write-out types
        created = set(types.values()) | {"ASP", "GLU", "C-", "HIS", "CYS", "TYR", "LYS", "ARG", "N+"}
        for t in cfg["write_out_order"]:
            if t == "SER":
                continue
            counts["write_out_types"] = counts.get("write_out_types", 0) + 1
            gtype = {"ASP": "COO", "GLU": "COO", "C-": "C-"}.get(t, t)
            if t not in p.model_pkas:
                viol.append({"cls": "write-out-type-without-model-pka", "msg": "%s is written out but has no model pKa" % t})
            q = p.charge.get(gtype, p.charge.get(t))
            if not q:
                viol.append({"cls": "write-out-type-without-charge", "msg": "%s is written out but has charge %r" % (t, q)})
        if not (p.coulomb_cutoff1 < p.coulomb_cutoff2 and p.buried_cutoff <= p.desolv_cutoff and p.Nmin < p.Nmax):
            viol.append({"cls": "cutoffs-inconsistent", "msg": "coulomb %r/%r buried %r desolv %r N %r/%r" % (
                p.coulomb_cutoff1, p.coulomb_cutoff2, p.buried_cutoff, p.desolv_cutoff, p.Nmin, p.Nmax)})
        for k, v in list(p.backbone_NH_hydrogen_bond.items()) + list(p.backbone_CO_hydrogen_bond.items()):
            if not v[1] < v[2]:
                viol.append({"cls": "cutoffs-inconsistent", "msg": "backbone hydrogen bond %s cut-offs %r" % (k, v)})
        if not p.sidechain_cutoffs.default[0] < p.sidechain_cutoffs.default[1]:
            viol.append({"cls": "cutoffs-inconsistent", "msg": "default side-chain cut-offs %r" % (p.sidechain_cutoffs.default,)})
    elif kind == "shipped-scalars":
        # the shipped file read by the real parser agrees with the harness's own reading of it
        for k, v in cfg["model_pkas"].items():
            counts["scalar_checks"] = counts.get("scalar_checks", 0) + 1
            if p.model_pkas.get(k) != v:
                viol.append({"cls": "scalar-wrong", "msg": "model_pkas %s: %r vs file %r" % (k, p.model_pkas.get(k), v)})
        for k, v in cfg["charge"].items():
            if p.charge.get(k) != v:
                viol.append({"cls": "scalar-wrong", "msg": "charge %s: %r vs file %r" % (k, p.charge.get(k), v)})
        from ..oracles import chem
        for k, v in cfg["charge"].items():
            want = chem.class_sign(k, k, cfg["acid_list"], cfg["base_list"])
            counts["scalar_checks"] = counts.get("scalar_checks", 0) + 1
            if want is not None and v * want <= 0:
                viol.append({"cls": "acid-base-charge-sign", "msg": "charge %s %+g, but %s is listed as %s" % (k, v, k, "an acid" if want < 0 else "a base")})
        for k, v in cfg["ions"].items():
            if v * chem.ion_sign(k) <= 0:
                viol.append({"cls": "ion-charge-sign-unchemical", "msg": "ions %s %+g" % (k, v)})
        for k, v in cfg["ions"].items():
            if p.ions.get(k) != v:
                viol.append({"cls": "scalar-wrong", "msg": "ions %s: %r vs file %r" % (k, p.ions.get(k), v)})
        for c in CUTS:
            counts["square_checks"] = counts.get("square_checks", 0) + 1
            if abs(getattr(p, c + "_squared") - getattr(p, c) ** 2) > 1e-9:
                viol.append({"cls": "squared-inconsistent", "msg": c})
        nd.append("shipped-scalars")
    else:
        # real runs: which type pairs are looked up, and do any come back undefined?
        from .. import obs, pdbio, sources
        LOOKED_UP.clear()
        recs = sources.full_protein(rng.choice(("1HPX.pdb", "4DFR.pdb", "1FTJ-Chain-A.pdb"))) if rng.random() < 0.3 \
            else sources.random_small_structure(rng, 100, 900)
        if rng.random() < 0.5:
            # several conformations with mutants: group types that only a later conformation holds (the one tyrosine,
            # histidine or cysteine of a small cut-out cut back to a stub in the first model)
            from .. import multiconf
            base_ = [r for r in sources.random_small_structure(rng, 60, 300) if r.raw is not None or r.alt in (" ", "A")]
            base_ = [multiconf._blank_alt(r) if r.raw is None else r for r in base_]
            rare = {}
            for r in base_:
                if r.raw is None and r.tag == "ATOM  " and r.resn in ("TYR", "HIS", "CYS", "TRP", "LYS", "ARG"):
                    rare.setdefault(r.resn, set()).add((r.chain, r.resnum, r.icode))
            pick = sorted(rn for rn, s_ in rare.items() if len(s_) <= 2)
            if pick:
                rn = rng.choice(pick)
                recs = []
                for m_ in (1, 2):
                    recs.append(pdbio.raw("MODEL     %4d" % m_))
                    for r in base_:
                        if r.raw is None and m_ == 1 and r.resn == rn and r.aname() not in ("N", "CA", "C", "O", "CB"):
                            continue
                        if r.raw is None and m_ == 1 and r.resn == rn:
                            r = r.copy()
                            r.resn = "ALA"
                        recs.append(r)
                    recs.append(pdbio.raw("ENDMDL"))
            else:
                recs, _d = multiconf.build(rng, base=base_)
        run = obs.run_single(pdbio.dump(recs), keep_mol=True)
        counts["pipeline_runs"] = 1
        if run.mol is not None:
            # the tables the molecule holds after its results were computed, logged and written are those of
            # the file: "for any parameter file ... look-ups give the same answer" also after a report
            held = table_snapshot(run.mol.version.parameters)
            fresh = table_snapshot(p)
            counts["tables_compared_after_run"] = counts.get("tables_compared_after_run", 0) + len(fresh)
            for k in sorted(set(held) | set(fresh)):
                if held.get(k) != fresh.get(k):
                    viol.append({"cls": "tables-changed-by-a-run", "msg": "parameter table %s after a run: %s; freshly read: %s" % (
                        k, str(held.get(k))[:200], str(fresh.get(k))[:200])})
                    break
            run.mol = None
        for (a, b), v in sorted(LOOKED_UP.items()):
            if "ION" in (a, b):
                continue
            nd.append("runtime-pair:%s-%s" % tuple(sorted((a, b))))
            if v is None:
                cls = "no-interaction-type:Cl" if "Cl" in (a, b) else "no-interaction-type"
                viol.append({"cls": cls, "msg": "a real run looked up interaction_matrix(%s,%s) and got None" % (a, b)})
        sample.update(sources.describe(recs))
        sample["pairs_looked_up"] = len(LOOKED_UP)
    res = util.finish(case, viol, counts, classes, nontrivial, sample, evals=max(1, len(nd)))
    res["nontrivial_digests"] = nd
    return res


def verdict(tier, counts, classes, nontrivial, results):
    reasons = []
    for k in ("interaction_matrix_add", "pairwise_matrix_add", "lookups_checked", "square_checks", "shipped_pairs"):
        if counts.get(k, 0) == 0:
            reasons.append("%s never evaluated" % k)
    return reasons
