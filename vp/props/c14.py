"""C14 - titrate_only restricts titration exactly to the listed residues."""
import random

RULE = ("each case runs a structure (repository proteins, cut-outs, chimeras with negative numbers and "
        "insertion codes incl. twins) without the option and with -i for a random list L (size 1 .. all, "
        "sometimes with entries naming residues that do not exist). Oracle: (a) census - the groups "
        "reported with L are exactly the census sites of the listed residues (chain, number, insertion "
        "code), in every conformation, AVR and the summary; (b) every group outside L is non-titratable; "
        "(c) exact metamorphic relations with the unrestricted run for every listed group: desolvation "
        "terms, counts, buried fraction, backbone determinants and side-chain determinants towards "
        "non-ionizable partners (ROH/AMD/TRP) are identical (the environment is unchanged); "
        "(d) L = all residues is equivalent to no option; (e) adding non-existent entries changes "
        "nothing. Non-trivial: L is a proper non-empty subset holding >= 1 site and the complement holds "
        ">= 1 site; distinct = distinct (input digest, list)."
        " Multi-file cases: propka.run.main with 2-3 files and one -i list naming residues of each; every file must come out as when run on its own with that list.")
RULE = RULE + ' Rounds 10-12: acid-base pairs settled by the iteration with one member listed (their hydrogen bond must stay); ligands split over two residues with one residue listed; a listed group is never discarded for one that does not titrate; multi-conformation inputs - one answer per atom position.'
ASSUMPTIONS = ["blank chain identifiers are avoided: the option has no syntax for them",
               "Coulomb and iterative side-chain terms between a listed and an unlisted group are not compared "
               "with the unrestricted run (they legitimately differ: the unlisted group no longer titrates)"]
TIMEOUT = {"quick": 1800, "thorough": 10800}


def generate(tier, seed):
    from .. import sources
    cases = []
    for name in sources.PROTEINS + sources.SMALL:
        for mode in ("subset", "all", "single"):
            cases.append({"kind": "file", "file": name, "mode": mode, "seed": "%d:%s:%s" % (seed, name, mode),
                          "cost": 120 if name in sources.PROTEINS else 5})
    n = 450 if tier == "quick" else 25000
    for k in range(n):
        cases.append({"kind": "built", "mode": ("subset", "subset", "all", "single", "ghost", "ghost-only", "pair", "pair", "twin")[k % 9],
                      "seed": "%d:b:%d" % (seed, k), "cost": 16})
    for k in range(40 if tier == "quick" else 2500):
        cases.append({"kind": "two-files", "mode": "two-files", "seed": "%d:tf:%d" % (seed, k), "cost": 30})
    # more cases in which one member of a hydrogen-bonded pair is listed and the other is not
    for k in range(150 if tier == "quick" else 3000):
        cases.append({"kind": "built", "mode": "pair", "seed": "%d:pair:%d" % (seed, k), "cost": 16})
    return cases


def setup(tier):
    from .. import contracts
    contracts.import_all_propka()


def all_residues(recs):
    out, seen = [], set()
    for r in recs:
        if r.raw is None:
            k = (r.chain, r.resnum, r.icode)
            if k not in seen:
                seen.add(k)
                out.append(k)
    return out


def two_files_case(case, rng, viol, counts, classes):
    """One invocation of propka.run.main with two or three files and one -i list that names residues
    of each of them: every file must be treated exactly as if it were run on its own with that list."""
    from .. import obs, pdbio, sources, util
    files = []
    listed = []
    for k in range(rng.choice((2, 2, 3))):
        recs = sources.random_small_structure(rng, 60, 500) if rng.random() < 0.6 else sources.chimera(rng, allow_blank=False)[0]
        recs = [r for r in recs if r.raw is not None or (r.alt in (" ", "A") and r.chain != " ")]
        if not pdbio.atoms(recs) or not sources.identities_unique(recs):
            continue
        res = all_residues(recs)
        tit = [r for r in util.titratable_residues(recs) if r[0] != " "] or res
        listed.append(rng.sample(tit, min(len(tit), rng.choice((1, 2, 4)))))
        files.append(("f%d.pdb" % k, pdbio.dump(recs)))
    if len(files) < 2:
        return {"kind": "two-files"}, "fewer than two usable structures"
    L = [r for part in listed for r in part]
    rng.shuffle(L)
    arg = ",".join(util.res_arg(r) for r in L)
    texts, exc = obs.run_main(files, ["-i", arg])
    counts["pipeline_runs"] = 1 + len(files)
    counts["multi_file_invocations"] = 1
    desc = {"kind": "two-files", "files": len(files), "listed": len(L), "exc": exc}
    if exc:
        viol.append({"cls": "multi-file-invocation-raises", "msg": "main with %d files and -i %s raised %s" % (len(files), arg[:60], exc)})
        return desc, None
    for name, text in files:
        alone = obs.run_single(text, ["-i", arg], name=name)
        if alone.exc:
            continue
        a = obs.parse_pka_text(alone.text)
        b = obs.parse_pka_text(texts[name]) if texts.get(name) else None
        counts["multi_file_comparisons"] = counts.get("multi_file_comparisons", 0) + 1
        if b is None or a["summary"] != b["summary"] or a["det_rows"] != b["det_rows"] or a["charge"] != b["charge"]:
            viol.append({"cls": "list-differs-for-later-file", "msg": "file %s of a %d-file invocation with -i %s: summary %r, run on its own %r" % (
                name, len(files), arg[:80], (b or {}).get("summary", [])[:3], a["summary"][:3])})
    classes.append("mode:two-files")
    return desc, None


_IM = {}


def _interaction_type(a, b):
    """'N' / 'I' / '-' for two group types, read from the shipped interaction matrix (lower triangle rows)."""
    if not _IM:
        from .. import util
        rows = util.parse_cfg()["interaction_matrix"]
        names = [r[0] for r in rows]
        for i, r in enumerate(rows):
            for j, v in enumerate(r[1:]):
                _IM[(names[i], names[j])] = v
                _IM[(names[j], names[i])] = v
    return _IM.get((a, b))


def run_case(case, tier):
    from .. import obs, pdbio, sources, util
    from ..monitors import census_mon
    from . import c01
    rng = random.Random(case["seed"])
    viol, counts, classes = [], {}, []
    if case["kind"] == "two-files":
        desc, inc = two_files_case(case, rng, viol, counts, classes)
        return util.finish(case, viol, counts, classes, inc is None and not viol, desc, inconclusive=inc)
    desc = {"kind": case["kind"], "mode": case["mode"]}
    if case["kind"] == "file":
        recs = sources.no_water(sources.repo_recs(case["file"]))
        desc["file"] = case["file"]
    else:
        if case["mode"] == "twin":
            # two consecutive residues of one ionizable type numbered as insertion-code twins: the list names one
            from .c15 import same_label_twin_cutout
            recs = [r for r in same_label_twin_cutout(rng) if r.raw is not None or r.alt in (" ", "A")]
        elif case["mode"] == "pair" and rng.random() < 0.8:
            from .c15 import cluster_cutout
            recs = cluster_cutout(rng)
        elif rng.random() < 0.5:
            recs, d = sources.chimera(rng, allow_blank=False)
        else:
            recs = sources.random_small_structure(rng, 60, 800)
        recs = [r for r in recs if r.raw is not None or r.alt in (" ", "A")]
        d2 = {}
        recs = c01.edit_layout(recs, rng, d2)
        desc["edits"] = d2.get("edits")
        if rng.random() < 0.15 and not any(r.raw is not None and r.tag in ("MODEL ", "ENDMDL") for r in recs):
            # several conformations whose atoms differ (models / alternate locations with atoms, residues or chains
            # missing, mutants): atoms copied from one conformation into another still belong to their residue -
            # insertion code included - when the list is consulted
            from .. import multiconf
            recs, _dm = multiconf.build(rng, base=recs)
            classes.append("conformations-that-differ")
        if rng.random() < 0.25:
            # a ligand of the fragment library (amines, amidinium, guanidinium, carboxylate, thiol, phosphate ...):
            # hetero residues can be listed too
            from .. import fragments
            from .c16 import titratable_anchor
            fname = rng.choice(sorted(fragments.FRAGMENTS))
            frag, _e, _d = fragments.place_near(recs, fname, rng, anchor=titratable_anchor(recs, rng),
                                                dist_A=rng.choice((3.0, 3.5, 4.5, 6.0)), min_clear_A=2.7)
            if frag and not any(r.raw is None and r.chain == "L" for r in recs):
                if len(frag) >= 4 and rng.random() < 0.35:
                    # deposited as two linked hetero residues (900 and 902): one of them may be listed without the other
                    frag = fragments.split_over_two_residues(frag, 902)
                    classes.append("ligand-split-over-two-residues")
                recs = recs + frag
                classes.append("ligand:" + fname)
                desc["ligand"] = fname
    if any(r.raw is None and r.chain == " " for r in recs):
        # the option has no syntax for a blank chain identifier: give that chain an unused letter
        used = {r.chain for r in recs if r.raw is None}
        free = [c for c in "ZYXWVUTSRQPONMLKJIHGFEDCBA" if c not in used]
        if free:
            recs = [r if r.raw is not None or r.chain != " " else r.copy() for r in recs]
            for r in recs:
                if r.raw is None and r.chain == " ":
                    r.chain = free[0]
    if any(r.raw is None and r.chain == " " for r in recs) or not sources.identities_unique(recs):
        return util.finish(case, viol, counts, classes, False, desc, inconclusive="blank chain / ambiguous ids")
    # "MODEL" copies are fine; alt-locs were removed
    res = all_residues(recs)
    mode = case["mode"]
    cen0 = None
    if mode == "ghost-only":
        # a list that names only residues which do not exist: nothing is to be titrated
        ghosts_only = [g for g in (("Q", 5, " "), (res[0][0], 9990, " "), (res[0][0], res[0][1], "Z" if res[0][2] != "Z" else "Y")) if g not in res]
        text = pdbio.dump(recs)
        if rng.random() < 0.4:
            # the empty list, as an API user sets it on the options object: nothing is listed either
            def hook(options):
                options.titrate_only = []
            only = obs.run_single(text, [], options_hook=hook)
            counts["empty_list_api_runs"] = 1
            classes.append("empty-list-through-the-api")
        else:
            only = obs.run_single(text, ["-i", ",".join(util.res_arg(r) for r in ghosts_only)])
        counts["pipeline_runs"] = 1
        counts["ghost_only_runs"] = 1
        if not only.exc:
            for cname, conf in only.rec["confs"].items():
                for g in conf["groups"]:
                    if g["titratable"] or g["use"]:
                        viol.append({"cls": "list-of-nonexistent-residues-titrates", "msg": "%s: %s is titratable/reported although the list names only residues that do not exist" % (cname, g["label"])})
                        break
        classes.append("mode:ghost-only")
        return util.finish(case, viol, counts, classes, True, desc)
    if mode == "twin":
        seen_n = {}
        for r_ in res:
            seen_n.setdefault((r_[0], r_[1]), []).append(r_)
        tw = [v for v in seen_n.values() if len(v) > 1]
        if tw:
            pair_ = rng.choice(tw)
            others = [r_ for r_ in res if r_ not in pair_]
            L = [rng.choice(pair_)] + rng.sample(others, min(len(others), rng.choice((0, 0, 2))))
            classes.append("one-twin-listed")
        else:
            mode = "single"
    if mode == "pair":
        # one member of a hydrogen-bonded pair of two acids / two bases is listed, its partner is not
        probe = obs.run_single(pdbio.dump(recs), write_pka=False)
        cands = []
        if not probe.exc:
            conf = probe.rec["confs"][probe.rec["names"][0]]
            byk = {tuple(h["akey"]): h for h in conf["groups"] if h["titratable"]}
            for h in conf["groups"]:
                if not h["titratable"]:
                    continue
                for dd in h["det"]["sidechain"]:
                    q = byk.get(tuple(dd[0]))
                    if q is not None and q["charge"] == h["charge"] and q["model_pka"] != h["model_pka"]:
                        r1, r2 = (h["aid"][1], h["aid"][2], h["aid"][3]), (q["aid"][1], q["aid"][2], q["aid"][3])
                        if r1 != r2 and r1 in res and r2 in res:
                            # (pairs that are not iterated - the model values decide the direction - are rarer: weighted)
                            cands += [(r1, r2)] * (4 if _interaction_type(h["type"], q["type"]) == "N" else 1)
                    elif q is not None and q["charge"] * h["charge"] < 0 and _interaction_type(h["type"], q["type"]) == "I":
                        # a hydrogen-bonded acid-base pair that the iteration settles (ASP-HIS, TYR-LYS ...)
                        r1, r2 = (h["aid"][1], h["aid"][2], h["aid"][3]), (q["aid"][1], q["aid"][2], q["aid"][3])
                        if r1 != r2 and r1 in res and r2 in res:
                            cands.append((r1, r2))
                            cands.append((r1, r2))
        if cands:
            r1, r2 = rng.choice(cands)
            others = [r for r in res if r not in (r1, r2)]
            L = [r1] + rng.sample(others, min(len(others), rng.choice((0, 0, 2))))
            classes.append("pair-member-listed")
        else:
            mode = "single"
    if mode == "all":
        L = list(res)
    elif mode in ("pair", "twin"):
        pass
    elif mode == "single":
        L = [rng.choice(res)]
    else:
        k = rng.choice((2, 5, len(res) // 4 or 1, len(res) // 2 or 1, max(1, len(res) - 1)))
        L = rng.sample(res, min(len(res), k))
    if desc.get("ligand") and ("L", 900, " ") in res and ("L", 900, " ") not in L and rng.random() < 0.7 and mode != "all":
        L = L + [("L", 900, " ")]
        classes.append("ligand-listed")
    ghosts = []
    if mode == "ghost" or rng.random() < 0.2:
        ghosts = [("Q", 5, " "), (L[0][0], 9990, " "), (L[0][0], L[0][1], "Z" if L[0][2] != "Z" else "Y")]
        ghosts = [g for g in ghosts if g not in res]
    text = pdbio.dump(recs)
    arg = ",".join(util.res_arg(r) for r in L + ghosts)
    xo = util.neutral_options(rng, families=("display", "grid", "protonation", "keep"), classes=classes)
    free = obs.run_single(text, xo)
    lim = obs.run_single(text, ["-i", arg] + xo, keep_mol=True)
    counts["pipeline_runs"] = 2
    lim_mol, lim.mol = lim.mol, None
    desc.update({"atoms": len(pdbio.atoms(recs)), "residues": len(res), "listed": len(L), "ghosts": len(ghosts),
                 "arg_head": arg[:60], "exc": lim.exc})
    if free.exc or lim.exc:
        if free.exc_type != lim.exc_type:
            viol.append({"cls": "titrate-only-changes-outcome", "msg": "no option: %r, -i: %r" % (free.exc, lim.exc)})
        classes.append("raised")
        return util.finish(case, viol, counts, classes, False, desc, inconclusive="raised")
    Lset = set(L)
    # (a) census of the restricted run
    cen = census_mon.check(lim, text, viol, counts, classes, titrate_only=Lset,
                           allow_topup_extras="conformations-that-differ" in classes)
    nin = nout = 0
    if cen and cen["models"]:
        first = cen["models"][min(cen["models"])]
        nin = sum(1 for s in first if s["in_list"])
        nout = sum(1 for s in first if not s["in_list"])
    # (b) nothing outside L titrates
    for cname, conf in lim.rec["confs"].items():
        for g in conf["groups"]:
            resid = (g["aid"][1], g["aid"][2], g["aid"][3])
            counts["groups_checked"] = counts.get("groups_checked", 0) + 1
            if resid not in Lset and g["titratable"]:
                viol.append({"cls": "unlisted-group-titrates", "msg": "%s: %s is titratable but %r is not in the list" % (cname, g["label"], resid)})
            if resid not in Lset and g["use"]:
                viol.append({"cls": "unlisted-group-reported", "msg": "%s: %s is reported but not listed" % (cname, g["label"])})
    # (b'') the list does not depend on the conformation: a group on one and the same atom position (an atom that
    # was copied from another conformation included) titrates in all conformations that hold it, or in none
    seen_t = {}
    for cname in lim.rec["names"]:
        for g in lim.rec["confs"][cname]["groups"]:
            if g["rtype"] == "CYS" and g.get("bridge"):
                continue
            k_ = (tuple(g["akey"]), g["type"])
            if k_ in seen_t and seen_t[k_][1] != g["titratable"]:
                viol.append({"cls": "listed-in-one-conformation-only", "msg": "%s: titratable=%r in conformation %s, %r in %s" % (
                    g["label"], seen_t[k_][1], seen_t[k_][0], g["titratable"], cname)})
                break
            seen_t.setdefault(k_, (cname, g["titratable"]))
    # (b') a listed group is never discarded in favour of a group that does not titrate (an unlisted one)
    for cname in lim.rec["names"]:
        gl_ = lim.rec["confs"][cname]["groups"]
        tit_keys = {tuple(g["akey"]) for g in gl_ if g["titratable"]}
        for g in gl_:
            if g["titratable"] and g["ctg"] is not None:
                counts["penalised_groups_checked"] = counts.get("penalised_groups_checked", 0) + 1
                if tuple(g["ctg"]) not in tit_keys:
                    viol.append({"cls": "listed-group-discarded-for-an-unlisted-one", "msg": "%s: %s is discarded in favour of %s, which does not titrate" % (
                        cname, g["label"], g["ctg_label"])})
    # (a') every group that titrates is written: a row in the determinant table and one in the summary
    if lim.text:
        parsed = obs.parse_pka_text(lim.text)
        srows = [x["label"] for x in obs.parse_summary(parsed["summary"])]
        drows = [x["label"] for x in obs.parse_det_rows(parsed["det_rows"])]
        for g in lim.rec["confs"]["AVR"]["groups"]:
            if g["titratable"] and g["use"] and g["ctg"] is None:
                counts["written_rows_checked"] = counts.get("written_rows_checked", 0) + 1
                if g["label"] not in srows or g["label"] not in drows:
                    viol.append({"cls": "listed-group-not-written", "msg": "%s (%s) titrates under the list but has %d summary / %d table rows" % (
                        g["label"], g["type"], srows.count(g["label"]), drows.count(g["label"]))})
    # (c) environment unchanged for listed groups
    for cname in lim.rec["names"]:
        fa, _ = obs.index_groups(free.rec["confs"][cname])
        la, _ = obs.index_groups(lim.rec["confs"][cname])
        # determinants whose label equals the label of a penalised group are deleted by label
        # (a backbone group carries its residue's label), and which groups are penalised differs
        # legitimately between the two runs: such determinants are not compared
        pen = {g["label"] for g in list(fa.values()) + list(la.values()) if g["ctg"] is not None}
        for k, g in la.items():
            resid = (g["aid"][1], g["aid"][2], g["aid"][3])
            if resid not in Lset or not g["titratable"]:
                continue
            f = fa.get(k)
            if f is None:
                viol.append({"cls": "listed-group-missing-in-free-run", "msg": "%s %s" % (cname, g["label"])})
                continue
            counts["listed_groups_compared"] = counts.get("listed_groups_compared", 0) + 1
            for fld in ("E_vol", "n_vol", "buried", "E_loc", "model_pka", "charge"):
                if abs(f[fld] - g[fld]) > 1e-7:
                    viol.append({"cls": "environment-changed", "msg": "%s %s: %s %.6f with the list, %.6f without" % (
                        cname, g["label"], fld, g[fld], f[fld])})
            def part(gr):
                out = {}
                for d in gr["det"]["backbone"]:
                    if d[2] in pen:
                        continue
                    out[("bb", tuple(d[0]))] = out.get(("bb", tuple(d[0])), 0.0) + d[3]
                for d in gr["det"]["sidechain"]:
                    if d[2] in pen:
                        continue
                    if d[1][:3] in ("SER", "THR", "ASN", "GLN", "TRP"):
                        out[("sc", tuple(d[0]))] = out.get(("sc", tuple(d[0])), 0.0) + d[3]
                return out
            pf, pl = part(f), part(g)
            for kk in set(pf) | set(pl):
                if abs(pf.get(kk, 0.0) - pl.get(kk, 0.0)) > 1e-7:
                    viol.append({"cls": "partner-lost", "msg": "%s %s: determinant towards %r is %r with the list, %r without" % (
                        cname, g["label"], kk, pl.get(kk), pf.get(kk))})
                    break
            for d in g["det"]["sidechain"]:
                pres = (d[5][1], d[5][2], d[5][3])
                if pres not in Lset and d[1][:3] in ("ASP", "GLU", "HIS", "CYS", "TYR", "LYS", "ARG", "N+ ", "C- "):
                    classes.append("hbond-to-unlisted-ionizable-residue")
                    # an unlisted ionizable residue is a hydrogen-bond partner like any other: between two acids
                    # (or two bases) the group with the lower model pKa is shifted down and its partner up by the
                    # same amount - whichever of the two comes first in the file
                    partners = [h for (kk, _t), h in la.items() if tuple(kk) == tuple(d[0]) and h["charge"] == g["charge"] and not h["titratable"]]
                    # (pairs the configuration marks 'I' are settled by the iteration - the group whose pKa is the
                    # higher one at that point is raised - not by the model values)
                    if len(partners) == 1 and partners[0]["model_pka"] != g["model_pka"] and g["label"] not in pen and partners[0]["label"] not in pen \
                            and _interaction_type(g["type"], partners[0]["type"]) == "N":
                        ptn = partners[0]
                        tot = sum(x[3] for x in g["det"]["sidechain"] if tuple(x[0]) == tuple(d[0]))
                        back = sum(x[3] for x in ptn["det"]["sidechain"] if tuple(x[0]) == tuple(g["akey"]))
                        counts["unlisted_partner_pairs"] = counts.get("unlisted_partner_pairs", 0) + 1
                        want_neg = g["model_pka"] < ptn["model_pka"]
                        if abs(tot) > 1e-9 and ((tot < 0) != want_neg or abs(tot + back) > 1e-7):
                            viol.append({"cls": "unlisted-partner-hbond-rule", "msg": "%s %s (model %.2f) has %+.4f from unlisted %s (model %.2f), which has %+.4f from it" % (
                                cname, g["label"], g["model_pka"], tot, ptn["label"], ptn["model_pka"], back)})
            if pl:
                classes.append("partner-determinants-compared")
    # (c') salt bridges into the unlisted part: a listed acid (base) whose hydrogen bond to an unlisted base
    # (acid) the program's own geometry function rates above zero holds that hydrogen bond, whenever the final
    # pKa of the acid lies well below that of the base (these pairs are settled by the iteration, which adds
    # the pair's terms exactly when pKa(acid) < pKa(base))
    if lim_mol is not None:
        excl = set(util.parse_cfg().get("exclude_sidechain_interactions", []))
        conf = lim_mol.conformations[lim_mol.conformation_names[0]]
        gl = list(conf.groups)
        for i, g1 in enumerate(gl):
            for g2 in gl[:i]:
                if g1.titratable == g2.titratable or g1.charge * g2.charge >= 0 or g1.type == "ION" or g2.type == "ION":
                    continue
                if g2 in g1.covalently_coupled_groups or _interaction_type(g1.type, g2.type) != "I":
                    continue
                listed, other = (g1, g2) if g1.titratable else (g2, g1)
                if listed.coupled_titrating_group is not None or other.coupled_titrating_group is not None:
                    continue
                try:
                    hb = lim_mol.version.hydrogen_bond_interaction(g1, g2)
                except Exception:
                    hb = None
                if not hb or hb <= 0.001 or listed.residue_type in excl:
                    continue
                acid, base = (listed, other) if listed.charge < 0 else (other, listed)
                if not acid.pka_value + 2.0 < base.pka_value:
                    continue
                counts["salt_bridges_into_unlisted_part"] = counts.get("salt_bridges_into_unlisted_part", 0) + 1
                # (the partner object of an iterated determinant is the solver's stand-in for the group: same atom)
                got = sum(d.value for d in listed.determinants["sidechain"] if getattr(d.group, "atom", None) is other.atom)
                if abs(abs(got) - hb) > 1e-6:
                    viol.append({"cls": "unlisted-partner-hbond-lost", "msg": "%s (pKa %.2f) and unlisted %s (pKa %.2f): hydrogen bond %.4f by the program's geometry, side-chain determinant held %+.4f" % (
                        listed.label, listed.pka_value, other.label, other.pka_value, hb, got)})
        lim_mol = None
    # (d) all residues == no option
    if mode == "all" and not ghosts:
        diffs = obs.compare_runs(free, lim, tol=1e-7, text=True)
        counts["all_equals_none"] = counts.get("all_equals_none", 0) + 1
        if diffs:
            viol.append({"cls": "all-residues-differs-from-no-option", "msg": obs.brief(diffs, 4)})
    # (e) ghosts have no effect
    if ghosts:
        plain = obs.run_single(text, ["-i", ",".join(util.res_arg(r) for r in L)] + xo)
        counts["pipeline_runs"] += 1
        counts["ghost_comparisons"] = counts.get("ghost_comparisons", 0) + 1
        diffs = obs.compare_runs(plain, lim, tol=0.0, text=True)
        if diffs:
            viol.append({"cls": "nonexistent-entry-has-effect", "msg": obs.brief(diffs, 4)})
    if any(r[2] != " " for r in L):
        classes.append("icode-listed")
    if any(r[1] < 0 for r in L):
        classes.append("negative-number-listed")
    classes.append("mode:" + mode)
    nontrivial = nin >= 1 and nout >= 1
    import hashlib
    return util.finish(case, viol, counts, classes, nontrivial, desc,
                       digest=hashlib.sha1((text + arg).encode()).hexdigest()[:16])


def verdict(tier, counts, classes, nontrivial, results):
    reasons = []
    if counts.get("listed_groups_compared", 0) == 0:
        reasons.append("no listed group compared with the unrestricted run")
    if counts.get("all_equals_none", 0) == 0:
        reasons.append("'all residues' never exercised")
    if counts.get("ghost_comparisons", 0) == 0:
        reasons.append("non-existent entries never exercised")
    for c in ("icode-listed", "hbond-to-unlisted-ionizable-residue", "partner-determinants-compared"):
        if c not in classes:
            reasons.append("class %s never observed" % c)
    if nontrivial < 8:
        reasons.append("fewer than 8 non-trivial cases")
    return reasons
