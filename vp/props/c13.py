"""C13 - selecting chains equals deleting the other chains from the file."""
import itertools
import random

RULE = ("each case takes a multi-chain structure (1HPX, 3SGB, 4DFR as shipped, and 2-6 chain chimeras of "
        "real pieces with blank chain ids, hetero groups carrying their own or another chain's id, "
        "missing TER records, OXT on some chains), picks a non-empty subset of the chain ids, and "
        "compares run A = (-c for each selected id, full file) with run B = (no option, file with "
        "every ATOM/HETATM line of the other chains removed): all group records of all "
        "conformations and AVR (bit-identical floats) and the .pka text minus the date line. "
        "Non-trivial: >= 2 chain ids in the file, the subset is proper, and the selected part has "
        ">= 2 titratable groups; distinct = distinct (structure digest, subset)."
        " Options are also given in another order than the chains of the file and a chain may be named twice.")
RULE = RULE + ' Round 12: -c combined with -i lists naming residues inside, outside or only outside the selection.'
ASSUMPTIONS = ["both runs see the same atom records in the same order, so exact equality is demanded"]
TIMEOUT = {"quick": 1800, "thorough": 10800}


def generate(tier, seed):
    cases = []
    for name in ("1HPX.pdb", "3SGB.pdb", "4DFR.pdb"):
        for sub in (0, 1, 2):
            cases.append({"kind": "file", "file": name, "subset": sub, "seed": "%d:%s:%d" % (seed, name, sub), "cost": 80})
    n = 500 if tier == "quick" else 20000
    for k in range(n):
        cases.append({"kind": "chimera", "seed": "%d:chi:%d" % (seed, k), "cost": 12})
    return cases


def setup(tier):
    from .. import contracts
    contracts.import_all_propka()


def run_case(case, tier):
    from .. import obs, pdbio, sources, util
    rng = random.Random(case["seed"])
    viol, counts, classes = [], {}, []
    if case["kind"] == "file":
        recs = sources.repo_recs(case["file"])
        desc = {"file": case["file"]}
    else:
        recs, desc = sources.chimera(rng)
        if rng.random() < 0.15:
            # several models / alternate locations of a multi-chain structure
            from .. import multiconf
            recs, d2 = multiconf.build(rng, base=recs)
            desc["multiconf"] = d2.get("mode")
    if case["kind"] != "file" and rng.random() < 0.35:
        # the hetero block of a homo-oligomer: one ion (or small ligand) per chain, all with the same residue
        # name and number, written one after the other at the end of the file
        from .. import fragments
        fname = rng.choice(("ion:CL", "ion:ZN", "ion:CA", "ion:MG", "acetate", "ammonium"))
        num = rng.choice((160, 201, 501, 1))
        chs = sorted({r.chain for r in recs if r.raw is None and r.tag == "ATOM  "})
        block = []
        for ch in chs:
            mine = [r for r in recs if r.raw is None and r.chain == ch and r.tag == "ATOM  "]
            if not mine:
                continue
            frag, _e, _d = fragments.place_near(recs + block, fname, rng, anchor=rng.choice(mine), dist_A=rng.choice((3.5, 4.5, 6.0)),
                                                chain=ch, resnum=num)
            if frag:
                block += frag
        if block and sources.identities_unique(recs + block):
            recs = recs + block
            classes.append("same-numbered-hetero-residue-per-chain")
            desc["hetero"] = True
    if rng.random() < 0.3:
        recs = [r for r in recs if r.raw is None or r.tag != "TER   " or rng.random() < 0.5]
    if rng.random() < 0.3:
        # columns the model does not use (segment id, element, charge, occupancy ...) filled in
        from .c07 import edit_columns
        recs, _n, _a = edit_columns(recs, rng)
        classes.append("unused-columns-filled")
    ids = sorted({r.chain for r in recs if r.raw is None})
    if case["kind"] == "file":
        subsets = [[ids[0]], [ids[-1]], ids]
        subset = subsets[case["subset"]]
    else:
        k = rng.randint(1, max(1, min(4, len(ids))))
        subset = sorted(rng.sample(ids, k))
        if rng.random() < 0.1:
            subset = subset + [rng.choice("QRS")]        # an id that does not occur
    opts = []
    order = list(subset)
    if case["kind"] != "file":
        if rng.random() < 0.3:
            rng.shuffle(order)                       # -c I -c E: the order of the options is no order of chains
            classes.append("options-in-other-order")
        if rng.random() < 0.1:
            order.append(rng.choice(order))          # -c A -c A
            classes.append("chain-named-twice")
    for c in order:
        opts += ["-c", c]
    extra = rng.choice(([], [], ["-d"], ["--protonate-all"]))
    if not extra:
        extra = util.neutral_options(rng, classes=classes)
    if case["kind"] != "file" and rng.random() < 0.2:
        # together with a titrate-only list (the same list in both runs): residues of selected chains, of
        # unselected chains, or of unselected chains only - deleting those chains turns the latter into entries
        # that name nothing
        res_ = [r_ for r_ in util.titratable_residues(recs) if r_[0] != " "]
        inside = [r_ for r_ in res_ if r_[0] in subset]
        outside = [r_ for r_ in res_ if r_[0] not in subset]
        pick_ = {"in": inside, "both": inside[:2] + outside[:2], "out": outside}[rng.choice(("in", "both", "out", "out"))]
        if pick_:
            pick_ = rng.sample(pick_, min(len(pick_), 3))
            extra = extra + ["-i", ",".join(util.res_arg(r_) for r_ in pick_)]
            classes.append("with-titrate-only-list")
    full = pdbio.dump(recs)
    cut = pdbio.dump([r for r in recs if r.raw is not None or r.chain in subset])
    ra = obs.run_single(full, opts + extra)
    rb = obs.run_single(cut, extra)
    counts["pipeline_runs"] = 2
    diffs = obs.compare_runs(ra, rb, tol=0.0, text=True)
    counts["comparisons"] = 1
    if diffs:
        viol.append({"cls": "chain-selection-differs", "msg": "subset %r of %r: %s" % (subset, ids, obs.brief(diffs, 4)),
                     "detail": {"opts": opts + extra}})
    ntit = 0
    if ra.rec:
        ntit = sum(1 for g in ra.rec["confs"]["AVR"]["groups"] if g["titratable"])
        counts["groups_compared"] = len(ra.rec["confs"]["AVR"]["groups"])
    if " " in subset:
        classes.append("blank-chain-selected")
    if " " in ids and " " not in subset:
        classes.append("blank-chain-deselected")
    classes.append("chains:%d" % min(len(ids), 6))
    if desc.get("hetero"):
        classes.append("hetero-with-chain-id")
    if desc.get("multiconf"):
        classes.append("multi-conformation")
    if ra.exc:
        classes.append("raised:" + ra.exc_type)
    nontrivial = len(ids) >= 2 and set(subset) & set(ids) != set(ids) and ntit >= 2
    desc.update({"kind": case["kind"], "ids": "".join(ids), "subset": subset, "extra": extra,
                 "atoms": len(pdbio.atoms(recs)), "exc": ra.exc})
    import hashlib
    return util.finish(case, viol, counts, classes, nontrivial, desc,
                       digest=hashlib.sha1((full + repr(subset)).encode()).hexdigest()[:16])


def verdict(tier, counts, classes, nontrivial, results):
    reasons = []
    if counts.get("comparisons", 0) == 0:
        reasons.append("no comparison made")
    if nontrivial < 5:
        reasons.append("fewer than 5 non-trivial cases")
    if "blank-chain-selected" not in classes:
        reasons.append("blank chain never selected")
    return reasons
