"""C02 - reported pKa == model pKa + desolvation + sum of listed determinants; the written
.pka file renders the same numbers."""
import random

RULE = ("each case runs propka.run.single on a structure (whole repository proteins, real-geometry "
        "cut-outs around titratable clusters, the multi-conformation files, multi-model builds) "
        "with a random option set from {none, -d, -i list, -c chain, -k} and a parameter file with "
        "remove_penalised_group / shared_determinants / common_charge_centre in {0,1}. Checked: the "
        "arithmetic identity on every group of every conformation and AVR, the contract at exit of "
        "every Group.calculate_total_pka call, and the determinant table / summary of the written "
        "file against the API values. Non-trivial: >= 1 printed group has determinants of >= 2 types; "
        "distinct = distinct (structure digest, options, parameters).")
RULE = RULE + " Round 8: parameter files are written with indented / tab-separated / commented keyword lines; every group of the average that is due a row must have one; the file of each single conformation (always under -d and with several conformations, else 30 %) is compared with that conformation's record."
RULE = RULE + ' Rounds 10-12: directed models in which one GLU / GLN is the same-type mutant (ASP / ASN) in one model.'
ASSUMPTIONS = ["printed numbers are compared with |printed - value| <= 0.005 + 1e-9",
               "groups with identical printed labels are matched in order of appearance"]
TIMEOUT = {"quick": 1800, "thorough": 10800}


def generate(tier, seed):
    from .. import sources
    cases = []
    opt_sets = ["none", "-d", "-i", "-c", "params", "params-d"]
    for name in sources.PROTEINS + sources.SMALL:
        for o in (opt_sets if tier == "thorough" else ["none", "-d", "params"]):
            cases.append({"kind": "file", "file": name, "optset": o, "seed": "%d:%s:%s" % (seed, name, o),
                          "cost": 60 if name in sources.PROTEINS else 3})
    for name in sources.MULTICONF:
        for o in ("none", "-d", "params"):
            cases.append({"kind": "file", "file": name, "optset": o, "seed": "%d:%s:%s" % (seed, name, o), "cost": 2})
    ncut = 500 if tier == "quick" else 20000
    for k in range(ncut):
        cases.append({"kind": "cutout", "seed": "%d:cut:%d" % (seed, k), "cost": 8})
    nmm = 60 if tier == "quick" else 2000
    for k in range(nmm):
        cases.append({"kind": "multimodel", "seed": "%d:mm:%d" % (seed, k), "cost": 15})
    for k in range(20 if tier == "quick" else 600):
        cases.append({"kind": "sametype", "seed": "%d:st:%d" % (seed, k), "cost": 15})
    return cases


def setup(tier):
    from .. import contracts
    from ..monitors import totals
    contracts.import_all_propka()
    totals.install()


def pick_options(rng, recs, optset=None):
    """Returns (optargs, description, remove_penalised)."""
    from .. import util
    optset = optset or rng.choice(["none", "none", "-d", "-i", "-c", "params", "params-d", "-k"])
    opts = []
    remove = True
    desc = {"optset": optset}
    if optset in ("-d", "params-d"):
        opts.append("-d")
    if optset == "-k":
        opts.append("-k")
    if optset == "-i":
        res = util.titratable_residues(recs)
        res = [r for r in res if r[0] != " "]
        if res:
            pick = rng.sample(res, max(1, min(len(res), rng.choice((1, 2, 5, len(res) // 2 or 1)))))
            opts += ["-i", ",".join(util.res_arg(r) for r in pick)]
            desc["titrate_only"] = len(pick)
    if optset == "-c":
        chains = sorted({r.chain for r in recs if r.raw is None})
        if chains:
            c = rng.choice(chains)
            opts += ["-c", c]
            desc["chain"] = c
    if optset in ("params", "params-d"):
        ov = {"remove_penalised_group": rng.choice((0, 1)), "shared_determinants": rng.choice((0, 1)),
              "common_charge_centre": rng.choice((0, 1))}
        remove = bool(ov["remove_penalised_group"])
        opts += ["-p", util.write_cfg(ov)]
        desc["params"] = ov
    return opts, desc, remove


def build_multimodel(rng):
    """2-3 models of a cut-out with jittered side-chain atoms in the later models."""
    from .. import pdbio, sources
    recs = sources.random_small_structure(rng, 80, 400)
    k = rng.choice((2, 3))
    out = []
    for m in range(1, k + 1):
        out.append(pdbio.raw("MODEL     %4d" % m))
        for r in recs:
            if r.raw is None and m > 1 and r.aname() not in ("N", "CA", "C", "O"):
                r = r.copy()
                r.x += rng.randrange(-150, 151)
                r.y += rng.randrange(-150, 151)
                r.z += rng.randrange(-150, 151)
            out.append(r)
        out.append(pdbio.raw("ENDMDL"))
    return out


def run_case(case, tier):
    from .. import obs, pdbio, sources, util
    from ..monitors import totals
    rng = random.Random(case["seed"])
    viol, counts, classes = [], {}, []
    if case["kind"] == "file":
        recs = sources.repo_recs(case["file"])
        optset = case["optset"]
    elif case["kind"] == "cutout":
        recs = sources.random_small_structure(rng, 80, 900)
        optset = None
    elif case["kind"] == "sametype":
        from .. import multiconf
        recs, _d = multiconf.build_same_type_mutant(rng)
        if recs is None:
            return util.finish(case, viol, counts, classes, False, {"kind": "sametype"}, inconclusive="no GLU / GLN in the cut-outs tried")
        optset = rng.choice(("none", "-d", "params"))
        classes.append("same-type-mutant-in-one-model")
    else:
        if rng.random() < 0.5:
            recs = build_multimodel(rng)
        else:
            from .. import multiconf
            recs, _d = multiconf.build(rng)       # mutants, missing atoms / residues / chains, alt-locs
        optset = rng.choice(("none", "-d", "params"))
    opts, desc, remove = pick_options(rng, recs, optset)
    text = pdbio.dump(recs)
    run = obs.run_single(text, opts, keep_mol=True)
    counts["pipeline_runs"] = 1
    desc.update(sources.describe(recs))
    desc["kind"] = case["kind"]
    desc["file"] = case.get("file")
    nontrivial = False
    if run.exc:
        desc["exc"] = run.exc
        # an exception is not C02's subject (C12/C05); record, do not judge
        classes.append("raised:" + run.exc_type)
        return util.finish(case, viol, counts, classes, False, desc, inconclusive="raised " + run.exc)
    totals.check_identity(run.rec, viol, counts)
    if run.text is None:
        viol.append({"cls": "no-pka-file", "msg": "no .pka file written"})
    else:
        before = counts.get("text_nontrivial_groups", 0)
        totals.check_text(run.rec, run.text, None, remove, viol, counts)
        nontrivial = counts.get("text_nontrivial_groups", 0) > before
    # the file written for one conformation (public propka.output.write_pka(..., conformation=name)) renders
    # that conformation's groups - with -d these keep the swapped determinants
    if run.mol is not None and (len(run.rec["names"]) > 1 or "-d" in opts or rng.random() < 0.3):
        import os
        import propka.output as po
        for name in run.rec["names"][:3]:
            path = os.path.join(util.worker_tmp(), "c02_conf_%s.pka" % name)
            try:
                po.write_pka(run.mol, run.mol.version.parameters, filename=path, conformation=name, verbose=False)
                with open(path) as fh:
                    ctext = fh.read()
            except Exception as e:
                viol.append({"cls": "per-conformation-file-raises", "msg": "write_pka(conformation=%r): %r" % (name, e)})
                continue
            nv = len(viol)
            totals.check_text(run.rec, ctext, None, remove, viol, counts, conf=name)
            for v in viol[nv:]:
                v["cls"] = "per-conformation-file:" + v["cls"]
                v["msg"] = "file written for %s: %s" % (name, v["msg"])
            counts["per_conformation_files"] = counts.get("per_conformation_files", 0) + 1
    run.mol = None
    # classes
    avr = run.rec["confs"]["AVR"]
    first = run.rec["confs"][run.rec["names"][0]]
    if any(g["ctg"] for g in first["groups"]):
        classes.append("penalised-group-present")
    if "-d" in opts and any(g["ncov"] for g in first["groups"]):
        classes.append("swap-display-with-coupled-groups")
    if len(run.rec["names"]) > 1:
        classes.append("averaged-over-%d-conformations" % min(3, len(run.rec["names"])))
    if desc.get("params", {}).get("shared_determinants"):
        classes.append("shared-determinants")
    if desc.get("params", {}).get("common_charge_centre"):
        classes.append("common-charge-centre")
    if desc.get("params") and not desc["params"]["remove_penalised_group"]:
        classes.append("penalised-kept")
    classes.append("optset:" + desc["optset"])
    desc["groups"] = len(avr["groups"])
    digest = obs_digest(text, opts)
    return util.finish(case, viol, counts, classes, nontrivial, desc, digest=digest)


def obs_digest(text, opts):
    import hashlib
    import os
    o = [os.path.basename(x) if x.endswith(".cfg") else x for x in opts]
    return hashlib.sha1((text + repr(o)).encode()).hexdigest()[:16]


def verdict(tier, counts, classes, nontrivial, results):
    reasons = []
    if counts.get("total_pka_contract", 0) == 0:
        reasons.append("contract on calculate_total_pka never evaluated")
    if counts.get("table_groups", 0) == 0:
        reasons.append("no determinant-table row was parsed")
    if nontrivial < 5:
        reasons.append("fewer than 5 non-trivial cases")
    for c in ("penalised-group-present", "swap-display-with-coupled-groups"):
        if c not in classes:
            reasons.append("class %s never observed" % c)
    return reasons
