"""C16 - every contribution has the physically required sign and stays in model bounds."""
import random

RULE = ("each case runs a structure that contains chosen interaction classes: cut-outs of 8-18 A around a "
        "titratable residue (buried and exposed), chimeras, whole proteins, and the same with a fragment "
        "of the fragment library (every ligand group type) or an ion (every ion of propka.cfg) placed at "
        "2.8-11 A from a titratable group without steric overlap. Contracts on radial_volume_desolvation, "
        "backbone_reorganization, hydrogen_bond_energy, coulomb_energy and the weight functions check "
        "sign-by-charge and bounds on every call; the boundary monitor checks the sign and magnitude of "
        "every desolvation term, buried fraction and determinant of every conformation (constants read "
        "from propka.cfg by the harness) and the equal-and-opposite clause for acid-base pairs of "
        "reported protein side chains. Non-trivial: >= 1 Coulomb determinant and >= 1 hydrogen-bond "
        "determinant were checked; distinct = distinct input digests."
        " Exception-mutant cases: whole proteins with a SER/THR next to a HIS ring nitrogen or CYS sulfur rewritten as CYS (buried CYS-HIS / CYS-CYS pairs). 30 % of all runs carry neutral extra options.")
RULE = RULE + ' Round 8: ion records carry element and formal-charge columns in the spellings 2+, +2 and blank.'
RULE = RULE + " Rounds 9-12: a Coulomb determinant needs a partner with a configured charge; ions sharing a residue number; the ion's row re-defined in the parameter file."
ASSUMPTIONS = ["bounds are per conformation; AVR merges determinants with equal partner labels and is not bounded",
               "penalised (not reported) groups are outside the equal-and-opposite clause, as the statement says"]
TIMEOUT = {"quick": 2400, "thorough": 14400}


def generate(tier, seed):
    from .. import fragments, sources
    cases = []
    for name in sources.PROTEINS:
        cases.append({"kind": "file", "file": name, "seed": "%d:%s" % (seed, name), "cost": 200})
    k = 0
    reps = 6 if tier == "quick" else 400
    for rep in range(reps):
        for f in list(fragments.FRAGMENTS) + ["dna:DA", "dna:DG"]:
            cases.append({"kind": "fragment", "frag": f, "seed": "%d:f:%d" % (seed, k), "cost": 25})
            k += 1
        for ion in fragments.IONS:
            cases.append({"kind": "fragment", "frag": "ion:" + ion, "seed": "%d:f:%d" % (seed, k), "cost": 25})
            k += 1
    n = 250 if tier == "quick" else 15000
    for i in range(n):
        cases.append({"kind": "cutout", "seed": "%d:c:%d" % (seed, i), "cost": 25})
    # buried special pairs (the configured exception values): whole proteins in which a SER/THR next to a
    # HIS ring nitrogen or a CYS sulfur is written as CYS (OG -> SG)
    for i in range(8 if tier == "quick" else 48):
        cases.append({"kind": "exception-mutant", "index": i, "seed": "%d:x:%d" % (seed, i), "cost": 200})
    # one structure run two or three times in a row with parameter files that differ in the Coulomb cut-offs
    # (and with it in the configured maximum): every run must respect its own maximum
    for i in range(16 if tier == "quick" else 800):
        cases.append({"kind": "param-sequence", "seed": "%d:ps:%d" % (seed, i), "cost": 60})
    return cases


_XCAND = None


def exception_candidates():
    """(file, chain, number, icode) of SER/THR residues whose hydroxyl oxygen is within 4 A of a HIS
    ring nitrogen or a CYS SG in the repository proteins."""
    global _XCAND
    if _XCAND is None:
        import math
        from .. import sources
        _XCAND = []
        for name in sources.PROTEINS:
            at = [r for r in sources.full_protein(name) if r.raw is None]
            og = [r for r in at if r.resn in ("SER", "THR") and r.aname() in ("OG", "OG1")]
            tg = [r for r in at if (r.resn == "HIS" and r.aname() in ("ND1", "NE2")) or (r.resn == "CYS" and r.aname() == "SG")]
            for o in og:
                if any(math.dist((o.x, o.y, o.z), (h.x, h.y, h.z)) < 4000 for h in tg):
                    _XCAND.append((name, o.chain, o.resnum, o.icode))
    return _XCAND


def setup(tier):
    from .. import contracts
    from ..monitors import energy_mon
    contracts.import_all_propka()
    energy_mon.install()


def titratable_anchor(recs, rng):
    cands = [r for r in recs if r.raw is None and r.tag == "ATOM  " and (r.resn, r.aname()) in
             (("ASP", "CG"), ("GLU", "CD"), ("HIS", "NE2"), ("CYS", "SG"), ("TYR", "OH"), ("LYS", "NZ"), ("ARG", "CZ"))]
    return rng.choice(cands) if cands else None


def run_case(case, tier):
    from .. import fragments, obs, pdbio, sources, util
    from ..monitors import energy_mon
    from .c15 import cluster_cutout
    rng = random.Random(case["seed"])
    viol, counts, classes = [], {}, []
    desc = {"kind": case["kind"]}
    if case["kind"] == "file":
        recs = sources.full_protein(case["file"])
        desc["file"] = case["file"]
    elif case["kind"] == "exception-mutant":
        cands = exception_candidates()
        name, ch, num, ic = cands[case["index"] % len(cands)]
        recs = []
        for r in sources.full_protein(name):
            if r.raw is None and (r.chain, r.resnum, r.icode) == (ch, num, ic):
                if r.aname() == "CG2":
                    continue                    # THR -> CYS: the methyl group goes
                r = r.copy()
                r.resn = "CYS"
                if r.aname() in ("OG", "OG1"):
                    r.name = " SG "
                    if len(r.tail) >= 24:                       # element columns 77-78
                        r.tail = r.tail[:22] + " S" + r.tail[24:]
            recs.append(r)
        if case["index"] >= len(cands):
            # the same site in the chain on its own (fewer neighbours: the buried test may flip)
            recs = [r for r in recs if r.raw is not None or r.chain == ch]
        desc.update({"file": name, "mutated": "%s %d" % (ch, num)})
        classes.append("exception-mutant")
    else:
        if rng.random() < 0.75:
            recs = cluster_cutout(rng)
        else:
            recs, _ = sources.chimera(rng)
        if case["kind"] == "fragment":
            anchor = titratable_anchor(recs, rng)
            d = rng.choice((2.8, 3.0, 3.3, 3.8, 4.5, 6.0, 8.0, 9.8, 11.0))
            frag, expect, dist = fragments.place_near(recs, case["frag"], rng, anchor=anchor, dist_A=d,
                                                      min_clear_A=2.55 if d < 3.2 else 2.7)
            if frag is None:
                return util.finish(case, viol, counts, classes, False, desc, inconclusive="no clash-free placement")
            if case["frag"].startswith("dna:"):
                recs = recs + [pdbio.raw("TER")] + frag
            else:
                recs = recs + frag
            if case["frag"].startswith("ion:") and rng.random() < 0.5:
                # a binuclear / trinuclear site: further ions of the same kind in the same chain
                for extra_i in range(rng.choice((1, 2))):
                    f2, _e, _d = fragments.place_near(recs, case["frag"], rng, anchor=anchor, dist_A=rng.choice((2.9, 3.5, 4.5, 6.0)),
                                                      resnum=901 + extra_i, min_clear_A=2.6)
                    if f2:
                        if rng.random() < 0.5:
                            # ... under one residue number, told apart by the insertion code only
                            f2 = [r_.copy() for r_ in f2]
                            for r_ in f2:
                                r_.resnum, r_.icode = 900, "AB"[extra_i]
                            classes.append("ions-sharing-a-residue-number")
                        recs = recs + f2
                        classes.append("several-ions-of-one-kind")
            if case["frag"].startswith("ion:") and rng.random() < 0.6:
                # the trailing columns of the ion records: element in 77-78 and the formal charge in 79-80, in
                # the spellings programs write ("2+" wwPDB style, "+2" sign first, blank); the charge written is
                # the configured one
                q = int(util.parse_cfg()["ions"][case["frag"][4:]])
                el = fragments.IONS[case["frag"][4:]].upper()
                spell = rng.choice(("%d%s" % (abs(q), "+" if q > 0 else "-"), "%s%d" % ("+" if q > 0 else "-", abs(q)), "  "))
                out_ = []
                for r in recs:
                    if r.raw is None and r.tag == "HETATM" and r.resn.strip() == case["frag"][4:]:
                        r = r.copy()
                        r.tail = "  1.00 20.00          %2s%s" % (el[:2] if el != "X" else " X", spell)
                    out_.append(r)
                recs = out_
                classes.append("ion-charge-column:" + ("blank" if not spell.strip() else ("sign-first" if spell[0] in "+-" else "sign-last")))
            desc.update({"frag": case["frag"], "distance": dist, "anchor": anchor.text()[12:27] if anchor else None})
    opts = []
    if rng.random() < 0.35:
        # scoring parameters a user may set in a parameter file; the signs and the configured
        # bounds must hold for them as well
        ov = {"desolvationAllowance": rng.choice((0.0, 0.05, 0.2, 0.6)),
              "desolvationSurfaceScalingFactor": rng.choice((0.25, 0.0, 0.6)),
              "Nmin": rng.choice((280, 150, 50)), "Nmax": rng.choice((560, 700))}
        if rng.random() < 0.6:
            # the Coulomb maximum itself is configured (244.12 / (30 * inner cut-off)): successive runs of one
            # process with different cut-offs must each respect their own maximum
            ov["coulomb_cutoff1"] = rng.choice((4.0, 6.0, 3.0, 5.0))
            ov["coulomb_cutoff2"] = rng.choice((10.0, 8.0, 12.0))
        if case["kind"] == "fragment" and case["frag"].startswith("ion:") and rng.random() < 0.6:
            # another oxidation state for the ion of this case: the row of the ions table defined again, after the
            # shipped one (the sign stays what chemistry says)
            ion_ = case["frag"][4:]
            q0_ = int(util.parse_cfg()["ions"][ion_])
            ov["ions " + ion_] = rng.choice([q_ for q_ in (1, 2, 3) if q_ != abs(q0_)]) * (1 if q0_ > 0 else -1)
            classes.append("ion-charge-redefined")
        opts = ["-p", util.write_cfg(ov)]
        classes.append("parameter-file")
        desc["params"] = ov
    if case["kind"] == "cutout" and rng.random() < 0.25:
        from .. import multiconf
        recs, d = multiconf.build(rng, base=[r for r in recs if r.raw is not None or r.tag == "ATOM  "])
        classes.append("multi-conformation")
    text = pdbio.dump(recs)
    if case["kind"] == "param-sequence":
        seq = rng.sample(((3.0, 10.0), (6.0, 10.0), (4.0, 8.0), (5.0, 12.0), (4.0, 10.0)), rng.choice((2, 3)))
        if rng.random() < 0.4:
            # a whole protein (buried pairs reach the maximum), smallest inner cut-off first
            recs = sources.full_protein(rng.choice(("3SGB.pdb", "1FTJ-Chain-A.pdb", "1HPX.pdb")))
            text = pdbio.dump(recs)
            seq = [(3.0, 10.0), (6.0, 10.0)]
        for (c1, c2) in seq:
            ov = {"coulomb_cutoff1": c1, "coulomb_cutoff2": c2}
            energy_mon.set_overrides(ov)
            r_ = obs.run_single(text, ["-p", util.write_cfg(ov)], write_pka=False)
            counts["pipeline_runs"] = counts.get("pipeline_runs", 0) + 1
            if r_.exc:
                continue
            for name in r_.rec["names"]:
                energy_mon.check_conformation(name, r_.rec["confs"][name], viol, counts, classes)
        energy_mon.set_overrides(None)
        classes.append("parameter-sequence")
        desc.update(sources.describe(recs))
        desc["sequence"] = seq
        import hashlib
        return util.finish(case, viol, counts, classes, True, desc, digest=hashlib.sha1((text + repr(seq)).encode()).hexdigest()[:16])
    opts = opts + util.neutral_options(rng, classes=classes)
    energy_mon.set_overrides(desc.get("params"))
    run = obs.run_single(text, opts, write_pka=False)
    counts["pipeline_runs"] = 1
    desc.update(sources.describe(recs))
    if run.exc:
        classes.append("raised:" + run.exc_type)
        return util.finish(case, viol, counts, classes, False, desc, inconclusive="raised " + run.exc)
    for name in run.rec["names"]:
        energy_mon.check_conformation(name, run.rec["confs"][name], viol, counts, classes)
    energy_mon.check_average(run.rec["confs"]["AVR"], viol, counts)
    if len(run.rec["names"]) == 1:
        # one conformation: what is reported (AVR) are that conformation's determinants, one by one - so the
        # bounds hold for the reported rows too (two ions of one kind are two rows, not one double row)
        from .c06 import has_twins
        if not has_twins(recs):
            c1, _ = obs.index_groups(run.rec["confs"][run.rec["names"][0]])
            ca, _ = obs.index_groups(run.rec["confs"]["AVR"])
            for k, g in ca.items():
                h = c1.get(k)
                if h is None:
                    continue
                counts["reported_rows_compared"] = counts.get("reported_rows_compared", 0) + 1
                def rows(gr):
                    # the average adds up determinants whose partner groups count as one group for the program:
                    # protein partners with one label (the N-H and the C=O of a residue), hetero partners with one
                    # label and residue number - never two different ions or ligand copies
                    out_ = {}
                    for t_, lst in gr["det"].items():
                        for d_ in lst:
                            kk = (t_, d_[1]) if d_[5][0] == "atom" else (t_, d_[1], d_[5][2])
                            out_[kk] = out_.get(kk, 0.0) + d_[3]
                    return out_
                da, d1 = rows(g), rows(h)
                bad = [kk for kk in set(da) | set(d1) if abs(da.get(kk, 0.0) - d1.get(kk, 0.0)) > 1e-9]
                if bad:
                    viol.append({"cls": "reported-determinants-differ-from-the-conformation", "msg": "%s: reported determinant towards %r is %r, the only conformation has %r" % (
                        g["label"], bad[0], da.get(bad[0]), d1.get(bad[0]))})
                    break
    if case["kind"] == "fragment" and not case["frag"].startswith("ion:"):
        conf = run.rec["confs"][run.rec["names"][0]]
        got = {g["aid"][5]: g["type"] for g in conf["groups"] if g["aid"][4].strip() == frag[0].resn.strip() and g["aid"][2] == 900}
        for a, t in expect.items():
            if got.get(a) == t:
                classes.append("ligand-type:" + t)
            else:
                classes.append("fragment-not-typed-as-declared:%s" % t)
    ncoul = sum(1 for c in classes if c.startswith(("coulomb:", "ion-coulomb:")))
    nhb = sum(1 for c in classes if c.startswith("sidechain:"))
    import hashlib
    return util.finish(case, viol, counts, classes, ncoul >= 1 and nhb >= 1, desc,
                       digest=hashlib.sha1(text.encode()).hexdigest()[:16])


def verdict(tier, counts, classes, nontrivial, results):
    from .. import fragments
    reasons = []
    for k in ("desolvation_contract", "hbond_energy_contract", "coulomb_energy_contract", "weight_contract",
              "reorganisation_contract", "determinants_checked", "acid_base_pairs_checked"):
        if counts.get(k, 0) == 0:
            reasons.append("%s never evaluated" % k)
    seen = {c.split(":", 1)[1] for c in classes if c.startswith("ligand-type:")}
    missing = [t for t in fragments.ALL_LIGAND_TYPES if t not in seen]
    if missing:
        reasons.append("ligand group types never produced: %s" % ",".join(missing))
    for want in ("ion-coulomb:", ":like", ":opposite"):
        if not any(want in c for c in classes):
            reasons.append("interaction class %s never observed" % want)
    if nontrivial < 8:
        reasons.append("fewer than 8 non-trivial cases")
    return reasons
