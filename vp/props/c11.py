"""C11 - covalent bonds are exactly those of the pairwise distance rule."""
import itertools
import math
import random

RULE = ("cloud cases: 2-200 atoms of elements C,N,O,S,H,F,Cl,P,Zn,Se,Si,Sr,Br,Na,Fe on the 0.001 A lattice, densities "
        "0.01-8 atoms/A^3, origins 0 / negative / multiples of the 2.51 A cell / near the field "
        "limit; directed cases: for one of the 26 neighbour directions, pairs straddling a cell "
        "face/edge/corner at threshold +- {0.001..0.01} A for H-X, X-Y and S-S, atom 1 at "
        "0-0.3 A from the boundary, cells with negative, zero, positive and large indices; "
        "cys cases: two real CYS residues with SG-SG at 2.5 +- d through propka.run.single; "
        "tie cases: pairs at exactly 1.5 / 2.0 / 2.5 A on multiples of 0.125 A (exact arithmetic, strict rule); "
        "pose cases: whole proteins in lattice poses; every conformation with a bridged CYS: total charge at "
        "four pH values = sum over the titrating groups. Deciding monitor: contract on "
        "BondMaker.find_bonds_for_atoms_using_boxes against an O(n^2) reference. A case is "
        "non-trivial when the reference contains >= 1 bond whose atoms lie in different cells.")
EXPLANATION = "26/26 neighbour directions must be observed with reference bonds for a held verdict"
RULE = RULE + ' Round 8 (written cases): a cloud written as ATOM/HETATM records in the name spellings of real files, read back through get_atom_lines_from_pdb with and without keep_protons; the bonds must be those of the rule for the elements written.'
RULE = RULE + ' Round 12: after whole runs (several models, tight metal sites) the heavy-atom bonds of every conformation are held against the pairwise rule and S-S flags are checked.'
ASSUMPTIONS = ["pairs with |d^2 - t^2| < 1e-9 are ties and not judged, unless all six coordinates are multiples "
               "of 0.125 A: the floating-point distance test is then exact and the strict inequality of the "
               "criterion decides (no bond at exactly 1.5 / 2.0 / 2.5 A)",
               "elements Hg/Ho/He... (symbol starting with H) are not judged: the rule's text does not say "
               "whether they count as hydrogen"]
ELEMS = ["C", "N", "O", "S", "H", "F", "Cl", "P", "Zn", "Se", "Si", "Sr", "Br", "Na", "Fe"]
BOX = 2510
DIRS = [d for d in itertools.product((-1, 0, 1), repeat=3) if any(d)]
TIMEOUT = {"quick": 1200, "thorough": 7200}


def generate(tier, seed):
    cases = []
    ncloud = 600 if tier == "quick" else 20000
    for k in range(ncloud):
        cases.append({"kind": "cloud", "seed": "%d:cloud:%d" % (seed, k), "cost": 2})
    for k in range(150 if tier == "quick" else 5000):
        cases.append({"kind": "written", "seed": "%d:written:%d" % (seed, k), "cost": 3})
    reps = 1 if tier == "quick" else 8
    for rep in range(reps):
        for d in DIRS:
            cases.append({"kind": "directed", "dir": list(d), "seed": "%d:dir:%s:%d" % (seed, d, rep),
                          "cost": 4})
    for d in DIRS:          # every direction, just inside and just outside the S-S threshold
        for delta in (-10, 10):
            cases.append({"kind": "cys", "dir": list(d), "delta": delta,
                          "seed": "%d:cys:%s:%d" % (seed, d, delta), "cost": 3})
    for k in range(6 if tier == "quick" else 100):
        cases.append({"kind": "cys", "tie": 1, "seed": "%d:cystie:%d" % (seed, k), "cost": 3})
    ncys = 12 if tier == "quick" else 2000
    for k in range(ncys):
        cases.append({"kind": "cys", "seed": "%d:cys:%d" % (seed, k), "cost": 3})
    for k in range(6 if tier == "quick" else 120):
        cases.append({"kind": "ties", "seed": "%d:ties:%d" % (seed, k), "cost": 3})
    npose = 24 if tier == "quick" else 600
    for k in range(npose):
        cases.append({"kind": "pose", "seed": "%d:pose:%d" % (seed, k), "cost": 60})
    return cases


def setup(tier):
    from .. import contracts
    from ..monitors import bonds
    contracts.import_all_propka()
    bonds.install()


def mk_atom(elem, x, y, z, name=None, idx=0):
    from propka.atom import Atom
    a = Atom()
    a.element = elem
    a.name = name or (elem.upper() + str(idx % 100))
    a.x, a.y, a.z = x / 1000.0, y / 1000.0, z / 1000.0
    a.res_name = "UNK"
    a.res_num = idx % 9999
    a.type = "hetatm"
    return a


def cloud(rng):
    n = rng.choice((2, 3, 5, 8, 13, 30, 60, 120, 200))
    dens = 10 ** rng.uniform(-2, 0.9)
    if rng.random() < 0.15:        # dense: > 60 atoms in one 2.51 A cell
        n = rng.choice((120, 200, 300))
        dens = rng.uniform(4.0, 8.0)
    side = max(300, int(1000 * (n / dens) ** (1 / 3.0)))
    origin_kind = rng.choice(("zero", "neg", "cell", "negcell", "far", "mixed"))
    if origin_kind == "zero":
        o = (0, 0, 0)
    elif origin_kind == "neg":
        o = tuple(-rng.randrange(0, 900000) for _ in range(3))
    elif origin_kind == "cell":
        o = tuple(BOX * rng.randrange(0, 50) for _ in range(3))
    elif origin_kind == "negcell":
        o = tuple(-BOX * rng.randrange(0, 50) - side // 2 for _ in range(3))
    elif origin_kind == "far":
        o = tuple(9990000 - side - rng.randrange(0, 5000) for _ in range(3))
    else:
        o = (-side // 2, BOX * 3 - side // 2, -rng.randrange(0, 3000))
    mix = rng.choice(("all", "organic", "sulfur", "hydrogen"))
    elems = {"all": ELEMS, "organic": ["C", "C", "N", "O", "H", "H"], "sulfur": ["S", "S", "C", "H", "Se", "Si"],
             "hydrogen": ["H", "H", "H", "O"]}[mix]
    atoms = []
    for i in range(n):
        atoms.append(mk_atom(rng.choice(elems), o[0] + rng.randrange(0, side + 1),
                             o[1] + rng.randrange(0, side + 1), o[2] + rng.randrange(0, side + 1), idx=i))
    return atoms, {"n": n, "density": round(dens, 3), "origin": origin_kind, "mix": mix}


# spellings of the atom-name columns 13-16: the element symbol is right-justified in 13-14, and a hydrogen
# name that fills all four columns starts in 13 (new style HD11, old style 1HD1)
SPELLINGS = {
    "H": [" H  ", " H1 ", " HA ", "1HB ", " HB2", "HD11", "1HD1", "2HH1", "3HD2", " HN ", "1H5'", "HH12", "H5''", "2HG1", " HE2"],
    "C": [" C  ", " CA ", " C12", " CD1", " C1'"], "N": [" N  ", " NZ ", " NH1", " N1 "], "O": [" O  ", " OXT", " OP1", " O5'"],
    "S": [" SG ", " SD ", " S1 "], "F": [" F1 ", " F  "], "P": [" P  ", " PA "], "Cl": ["CL  ", "CL1 "], "Zn": ["ZN  "],
    "Se": ["SE  "], "Si": ["SI  ", "SI1 "], "Sr": ["SR  "], "Br": ["BR  ", "BR2 "], "Na": ["NA  "], "Fe": ["FE  ", "FE2 "],
}


def written_case(rng, viol, counts, classes):
    """A cloud written as HETATM records and read back through the package's own reader, with and without
    --keep-protons: the bonds must be those of the rule applied with the element the name columns spell."""
    import os
    import propka.bonds
    import propka.input
    from .. import pdbio, util
    from ..monitors import bonds
    atoms, desc = cloud(rng)
    atoms = [a for a in atoms if max(abs(a.x), abs(a.y), abs(a.z)) < 9999]
    recs = []
    for i, a in enumerate(atoms):
        nm = rng.choice(SPELLINGS[a.element])
        tag = "HETATM" if rng.random() < 0.7 else "ATOM  "
        tail = rng.choice(("  1.00  0.00", "  1.00  0.00          %2s" % a.element.upper(), ""))
        recs.append(pdbio.new_atom(tag, i + 1, nm, "UNK", "A", i % 9999 + 1, round(a.x * 1000), round(a.y * 1000),
                                   round(a.z * 1000), tail=tail))
        a.name = nm.strip()
    path = os.path.join(util.worker_tmp(), "written.pdb")
    with open(path, "w") as fh:
        fh.write(pdbio.dump(recs))
    desc["kind"] = "written"
    for keep in (True, False):
        want = [a for a in atoms if keep or a.element != "H"]
        got = [at for _c, at in propka.input.get_atom_lines_from_pdb(path, ignore_residues=(), keep_protons=keep)]
        counts["written_atoms_read"] = counts.get("written_atoms_read", 0) + len(got)
        if len(got) != len(want) or any((g.name, g.x, g.y, g.z) != (w.name, w.x, w.y, w.z) for g, w in zip(got, want)):
            extra = [g.name for g in got if g.name not in {w.name for w in want}][:3]
            viol.append({"cls": "atoms-read-differ", "msg": "keep_protons=%s: %d atoms written (%d hydrogens), %d read back; e.g. %r" % (
                keep, len(atoms), sum(1 for a in atoms if a.element == "H"), len(got), extra)})
            continue
        propka.bonds.BondMaker().find_bonds_for_atoms_using_boxes(got)
        # reference: the rule with the elements that were written
        must, skip = bonds.reference_pairs(want)
        idx = {id(g): i for i, g in enumerate(got)}
        have = set()
        for i, g in enumerate(got):
            for b in g.bonded_atoms:
                j = idx.get(id(b))
                if j is not None and i < j:
                    have.add((i, j))
        counts["written_reference_bonds"] = counts.get("written_reference_bonds", 0) + len(must)
        wrong = [(i, j) for (i, j) in (must ^ have) if (i, j) not in skip]
        if wrong:
            i, j = wrong[0]
            viol.append({"cls": "bonds-differ-from-the-rule-for-the-written-elements",
                         "msg": "keep_protons=%s: %s %r - %s %r at %.4f A: %s; %d pairs differ" % (
                             keep, want[i].element, want[i].name, want[j].element, want[j].name,
                             math.dist((want[i].x, want[i].y, want[i].z), (want[j].x, want[j].y, want[j].z)),
                             "bonded" if (i, j) in have else "not bonded", len(wrong))})
    if any(len(a.name) == 4 and a.name[0].isdigit() for a in atoms):
        classes.append("written:old-style-hydrogen-names")
    classes.append("written")
    desc["atoms"] = len(atoms)
    return desc


def directed(rng, d):
    """Pairs across the cell boundary in direction d, for every threshold and offset."""
    atoms = []
    m = sum(1 for c in d if c)
    slot = 0
    for (e1, e2, t) in (("H", "C", 1500), ("N", "H", 1500), ("C", "O", 2000), ("S", "C", 2000),
                        ("S", "S", 2500), ("Zn", "O", 2000), ("H", "H", 1400),
                        # elements whose symbol merely starts like sulfur's: the 2.5 A rule is for S-S only
                        ("Se", "S", 2000), ("Se", "Se", 2000), ("Si", "S", 2000), ("Sr", "S", 2000)):
        for delta in (-10, -3, -1, 0, 1, 3, 10):
            for eps in (0, 1, 50, 300):
                for base in ("neg", "zero", "pos", "far"):
                    if base == "neg":
                        c0 = (-3 - 12 * slot, -2, -1)
                    elif base == "zero":
                        c0 = (0 + 12 * slot, 0, 0) if slot % 2 else (0, 0 + 12 * slot, 0)
                    elif base == "pos":
                        c0 = (4, 7 + 12 * slot, 2)
                    else:
                        c0 = (3900, 3900 - 12 * slot, 3900)
                    slot += 1
                    p1 = []
                    for k in range(3):
                        if d[k] == 1:
                            p1.append((c0[k] + 1) * BOX - eps)
                        elif d[k] == -1:
                            p1.append(c0[k] * BOX + eps)
                        else:
                            p1.append(c0[k] * BOX + BOX // 2 + rng.randrange(-200, 200))
                    step = (t + delta) / math.sqrt(m)
                    jit = [rng.uniform(0.85, 1.15) if d[k] else 0.0 for k in range(3)]
                    nrm = math.sqrt(sum(j * j for j in jit))
                    p2 = [int(round(p1[k] + d[k] * (t + delta) * jit[k] / nrm)) for k in range(3)]
                    if max(abs(v) for v in p1 + p2) > 9999000:
                        continue
                    atoms.append(mk_atom(e1, *p1, idx=len(atoms)))
                    atoms.append(mk_atom(e2, *p2, idx=len(atoms)))
    rng.shuffle(atoms)
    return atoms


TIE_VECTORS = {  # exact-threshold separations whose components are multiples of 0.125 A
    "H-X": [(1500, 0, 0), (1000, 1000, 500)],
    "X-Y": [(2000, 0, 0)],
    "S-S": [(2500, 0, 0), (1500, 2000, 0)],
}


def exact_ties(rng):
    """Pairs separated by exactly the threshold, all coordinates multiples of 0.125 A: the float
    arithmetic of the distance test is exact, so the strict inequality of the criterion decides
    (no bond)."""
    import itertools as it
    atoms = []
    slot = 0
    for t, vecs in sorted(TIE_VECTORS.items()):
        e1, e2 = {"H-X": ("H", rng.choice("CNOS")), "X-Y": (rng.choice("CNO"), rng.choice(("C", "S", "Zn"))), "S-S": ("S", "S")}[t]
        for v in vecs:
            for perm in set(it.permutations(v)):
                for signs in it.product((1, -1), repeat=3):
                    w = tuple(p * s_ for p, s_ in zip(perm, signs))
                    o = (125 * rng.randrange(-40000, 40000), 8000 * slot + 125 * rng.randrange(-8, 8), 125 * rng.randrange(-400, 400))
                    slot += 1
                    atoms.append(mk_atom(e1, *o, idx=len(atoms)))
                    atoms.append(mk_atom(e2, o[0] + w[0], o[1] + w[1], o[2] + w[2], idx=len(atoms)))
    rng.shuffle(atoms)
    return atoms


def run_case(case, tier):
    import propka.bonds
    from .. import contracts
    from ..monitors import bonds
    rng = random.Random(case["seed"])
    viol, counts, classes = [], {}, []
    kind = case["kind"]
    sample = None
    bonds.drain_classes()
    if kind == "cloud":
        atoms, desc = cloud(rng)
        propka.bonds.BondMaker().find_bonds_for_atoms_using_boxes(atoms)
        nb = sum(len(a.bonded_atoms) for a in atoms) // 2
        # atom order must not matter: same atoms, fresh objects, reversed / shuffled order
        copy = [mk_atom(a.element, round(a.x * 1000), round(a.y * 1000), round(a.z * 1000), a.name, i)
                for i, a in enumerate(atoms)]
        order = list(range(len(copy)))
        rng.shuffle(order)
        propka.bonds.BondMaker().find_bonds_for_atoms_using_boxes([copy[i] for i in order])
        nb2 = sum(len(a.bonded_atoms) for a in copy) // 2
        if nb != nb2:
            viol.append({"cls": "bond-order-dependent", "msg": "%d bonds vs %d after shuffling: %r" % (nb, nb2, desc)})
        desc.update({"kind": "cloud", "bonds": nb, "first_atom": str(atoms[0])})
        sample = desc
        classes.append("cloud:" + desc["origin"])
    elif kind == "directed":
        d = tuple(case["dir"])
        atoms = directed(rng, d)
        propka.bonds.BondMaker().find_bonds_for_atoms_using_boxes(atoms)
        nb = sum(len(a.bonded_atoms) for a in atoms) // 2
        sample = {"kind": "directed", "dir": d, "pairs": len(atoms) // 2, "bonds": nb}
    elif kind == "ties":
        atoms = exact_ties(rng)
        propka.bonds.BondMaker().find_bonds_for_atoms_using_boxes(atoms)
        nb = sum(len(a.bonded_atoms) for a in atoms) // 2
        counts["exact_tie_pairs"] = len(atoms) // 2
        sample = {"kind": "ties", "pairs": len(atoms) // 2, "bonds": nb}
        classes.append("exact-ties")
    elif kind == "written":
        sample = written_case(rng, viol, counts, classes)
    elif kind == "cys":
        sample = cys_case(rng, viol, counts, case)
    else:
        sample = pose_case(rng, viol, counts)
    dirs, thresh = bonds.drain_classes()
    for dd in dirs:
        classes.append("dir:%+d%+d%+d" % dd)
    for t in thresh:
        classes.append("threshold:" + t)
    c2, w2 = contracts.drain()
    for k, v in c2.items():
        counts[k] = counts.get(k, 0) + v
    viol.extend(w2)
    return {"violations": viol[:10], "nontrivial": bool(dirs), "digest": repr(sorted(case.items(), key=str)),
            "counts": counts, "classes": classes, "sample": sample,
            "evals": counts.get("bond_contract", 0)}


def _cys_residue():
    """A real X-CYS-Y tripeptide (so that the CYS is not a chain terminus)."""
    from .. import sources
    for name in ("1FTJ-Chain-A.pdb", "3SGB.pdb", "4DFR.pdb", "1HPX.pdb"):
        rl = sources.residue_list(sources.full_protein(name))
        for i in range(1, len(rl) - 1):
            res = rl[i]
            if (res.key[4] == "CYS" and {a.aname() for a in res.atoms} >= {"N", "CA", "C", "O", "CB", "SG"}
                    and not rl[i].ter_before and not rl[i + 1].ter_before
                    and rl[i - 1].key[0] == rl[i + 1].key[0] == "ATOM  "
                    and rl[i - 1].key[4] not in ("CYS",) and rl[i + 1].key[4] not in ("CYS",)):
                return [a.copy() for r_ in rl[i - 1:i + 2] for a in r_.atoms]
    raise RuntimeError("no suitable CYS tripeptide in the repository files")


def two_cys_at_exactly_2p5(rng, vec=None, target=None):
    """Records of two X-CYS-Y tripeptides (chains A and B) whose sulfurs are exactly 2.5 A apart, both on
    multiples of 0.125 A (exact floating-point arithmetic: the rule's strict inequality says no bridge).
    With vec / target (milli-Angstrom): sulfur 1 at target, sulfur 2 at target + vec."""
    from .. import pdbio
    res = _cys_residue()
    sg = [a for a in res if a.aname() == "SG"][0]
    n0 = min(a.resnum for a in res)
    target = list(target) if target is not None else [125 * rng.randrange(-4000, 4000) for _ in range(3)]
    r1 = pdbio.move(res, pdbio.IDENTITY, (target[0] - sg.x, target[1] - sg.y, target[2] - sg.z))
    rot = rng.choice([r for r in pdbio.ROTATIONS if r != pdbio.IDENTITY])
    r2 = pdbio.move(res, rot, (0, 0, 0))
    sg2 = [a for a in r2 if a.aname() == "SG"][0]
    if vec is not None:
        v = list(vec)
    else:
        v = list(rng.choice(TIE_VECTORS["S-S"]))
        rng.shuffle(v)
        v = [c * rng.choice((1, -1)) for c in v]
    r2 = pdbio.move(r2, pdbio.IDENTITY, (target[0] + v[0] - sg2.x, target[1] + v[1] - sg2.y, target[2] + v[2] - sg2.z))
    for a in r1:
        a.chain, a.resnum, a.icode = "A", 10 + a.resnum - n0, " "
    for a in r2:
        a.chain, a.resnum, a.icode = "B", 20 + a.resnum - n0, " "
    return r1 + [pdbio.raw("TER")] + r2


def cys_case(rng, viol, counts, case=None):
    """Two CYS residues, SG-SG at 2.5 +- delta across a random cell boundary, through single()."""
    from .. import obs, pdbio
    res = _cys_residue()
    sg = [a for a in res if a.aname() == "SG"][0]
    n0 = min(a.resnum for a in res)
    delta = rng.choice((-400, -100, -10, -3, -1, 1, 3, 10, 100, 400, 1500))
    d = rng.choice(DIRS)
    if case and "dir" in case:
        d, delta = tuple(case["dir"]), case["delta"]
    m = sum(1 for c in d if c)
    # move residue 1 so that SG sits eps inside a cell boundary towards d
    eps = rng.choice((0, 1, 20, 200))
    c0 = [rng.choice((-4, -1, 0, 3, 40)) for _ in range(3)]
    target = []
    for k in range(3):
        if d[k] == 1:
            target.append((c0[k] + 1) * BOX - eps)
        elif d[k] == -1:
            target.append(c0[k] * BOX + eps)
        else:
            target.append(c0[k] * BOX + BOX // 2)
    r1 = pdbio.move(res, pdbio.IDENTITY, (target[0] - sg.x, target[1] - sg.y, target[2] - sg.z))
    # residue 2: point-inverted-like copy (a proper rotation by 180 deg) placed so SG2 = SG1 + v
    rot = rng.choice([r for r in pdbio.ROTATIONS if r != pdbio.IDENTITY])
    r2 = pdbio.move(res, rot, (0, 0, 0))
    sg2 = [a for a in r2 if a.aname() == "SG"][0]
    v = [int(round(d[k] * (2500 + delta) / math.sqrt(m))) for k in range(3)]
    tie = bool(case and case.get("tie"))
    if tie:
        # SG-SG exactly 2.5 A with both sulfurs on multiples of 0.125 A: exact arithmetic, no bridge
        target = [125 * rng.randrange(-4000, 4000) for _ in range(3)]
        r1 = pdbio.move(res, pdbio.IDENTITY, (target[0] - sg.x, target[1] - sg.y, target[2] - sg.z))
        v = list(rng.choice(TIE_VECTORS["S-S"]))
        rng.shuffle(v)
        v = [c * rng.choice((1, -1)) for c in v]
    r2 = pdbio.move(r2, pdbio.IDENTITY, (target[0] + v[0] - sg2.x, target[1] + v[1] - sg2.y, target[2] + v[2] - sg2.z))
    for a in r1:
        a.chain, a.resnum, a.icode = "A", 10 + a.resnum - n0, " "
    for a in r2:
        a.chain, a.resnum, a.icode = "B", 20 + a.resnum - n0, " "
    recs = r1 + [pdbio.raw("TER")] + r2
    sg1 = [a for a in r1 if a.aname() == "SG"][0]
    sg2 = [a for a in r2 if a.aname() == "SG"][0]
    d2 = (sg1.x - sg2.x) ** 2 + (sg1.y - sg2.y) ** 2 + (sg1.z - sg2.z) ** 2
    opts = []
    if rng.random() < 0.4:
        # the bridged / unbridged state must not depend on a titrate-only list naming the residues
        opts = ["-i", "A:%d,B:%d" % (11, 21)] if rng.random() < 0.7 else ["-i", "A:11"]
    run = obs.run_single(pdbio.dump(recs), opts, with_atoms=True, keep_mol=True)
    counts["pipeline_runs"] = 1
    if not run.exc:
        bridged_carries_no_charge(run, viol, counts)
    if opts:
        counts["cys_cases_with_titrate_only"] = counts.get("cys_cases_with_titrate_only", 0) + 1
    desc = {"kind": "cys", "opts": opts, "sg_sg_A": math.sqrt(d2) / 1000.0, "dir": d, "eps_mA": eps, "exc": run.exc}
    if run.exc:
        viol.append({"cls": "bonds-exception", "msg": "single() raised %s on a two-CYS input" % run.exc})
        return desc
    if d2 == 2500 ** 2 and not tie:
        return desc
    if tie:
        counts["cys_exact_ties"] = 1
    expect_bridge = d2 < 2500 ** 2
    conf = run.rec["confs"][run.rec["names"][0]]
    cys = [g for g in conf["groups"] if g["rtype"] == "CYS"]
    counts["cys_groups_checked"] = len(cys)
    summ = {s["label"]: s for s in obs.parse_summary(obs.parse_pka_text(run.text)["summary"])}
    if len(cys) != 2:
        viol.append({"cls": "cys-group-missing", "msg": "%d CYS groups for two CYS residues" % len(cys)})
    listed = {"A": True, "B": True}
    if opts:
        listed = {"A": True, "B": "B:" in opts[1]}
    for g in cys:
        if not listed[g["aid"][1]]:
            # an unlisted CYS is not titrated and not reported under --titrate_only (C14's subject)
            if g["bridge"] != expect_bridge:
                viol.append({"cls": "bridged-cys-state", "msg": "unlisted %s: bridge flag %s, S-S %.4f A" % (g["label"], g["bridge"], math.sqrt(d2) / 1000.0)})
            continue
        ok = (g["bridge"] == expect_bridge and g["titratable"] == (not expect_bridge)
              and (abs(g["pka"] - 99.99) < 1e-9) == expect_bridge)
        s = summ.get(g["label"])
        # the summary is C01's business except for the clause "a bridged cysteine is reported
        # as 99.99"; an unbridged CYS that is in the summary must not show 99.99 either
        if expect_bridge and (s is None or abs(s["pka"] - 99.99) > 1e-9):
            ok = False
        if not expect_bridge and s is not None and abs(s["pka"] - 99.99) < 1e-9:
            ok = False
        if not ok:
            viol.append({"cls": "bridged-cys-state", "msg": "SG-SG %.4f A: group %s bridge=%s titratable=%s pka=%.2f summary=%r" % (
                math.sqrt(d2) / 1000.0, g["label"], g["bridge"], g["titratable"], g["pka"], s)})
    return desc


def bridged_carries_no_charge(run, viol, counts):
    """'A bridged cysteine is not titrated': it contributes no charge at any pH, in the folded and in
    the unfolded curve (Henderson-Hasselbalch sum over the groups that do titrate)."""
    from ..oracles import hh
    for cname in run.rec["names"][:2] + ["AVR"]:
        groups = run.rec["confs"][cname]["groups"]
        nb = sum(1 for g in groups if g["rtype"] == "CYS" and g["bridge"])
        if not nb:
            continue
        conf = run.mol.conformations[cname]
        for ph in (7.0, 9.0, 11.0, 14.0):
            qu, qf = conf.calculate_charge(run.mol.version.parameters, ph=ph)
            counts["bridged_charge_checks"] = counts.get("bridged_charge_checks", 0) + 1
            eu, ef = hh.total_charge(groups, ph, "unfolded"), hh.total_charge(groups, ph, "folded")
            if abs(qu - eu) > 1e-6 or abs(qf - ef) > 1e-6:
                viol.append({"cls": "bridged-cys-carries-charge", "msg": "%s pH %.1f: charge unfolded/folded %.4f/%.4f, sum over the titrating groups "
                             "%.4f/%.4f (%d bridged CYS)" % (cname, ph, qu, qf, eu, ef, nb)})
                return


def pipeline_bonds_follow_the_rule(mol, viol, counts):
    """After a whole run: among the heavy atoms of every conformation - protein, ligands and ions alike - the
    bonds held are those of the pairwise rule, and both sulfurs of every S-S bond are flagged as bridged."""
    from ..monitors import bonds
    for name in mol.conformation_names:
        heavy = [a for a in mol.conformations[name].atoms if a.element != "H"]
        idx = {id(a): i for i, a in enumerate(heavy)}
        have = set()
        for i, a in enumerate(heavy):
            for b in a.bonded_atoms:
                j = idx.get(id(b))
                if j is not None and i < j:
                    have.add((i, j))
        must, skip = bonds.reference_pairs(heavy)
        counts["pipeline_conformations_checked"] = counts.get("pipeline_conformations_checked", 0) + 1
        counts["pipeline_reference_bonds"] = counts.get("pipeline_reference_bonds", 0) + len(must)
        wrong = [(i, j) for (i, j) in (must ^ have) if (i, j) not in skip]
        if wrong:
            i, j = wrong[0]
            viol.append({"cls": "pipeline-bonds-differ-from-the-rule", "msg": "conformation %s: %s %s%d and %s %s%d (%.3f A) are %s; %d pairs differ" % (
                name, heavy[i].name, heavy[i].res_name, heavy[i].res_num, heavy[j].name, heavy[j].res_name, heavy[j].res_num,
                math.dist((heavy[i].x, heavy[i].y, heavy[i].z), (heavy[j].x, heavy[j].y, heavy[j].z)),
                "bonded" if (i, j) in have else "not bonded", len(wrong))})
        for (i, j) in must:
            if heavy[i].element == "S" and heavy[j].element == "S" and not (heavy[i].cysteine_bridge and heavy[j].cysteine_bridge):
                viol.append({"cls": "ss-not-flagged", "msg": "conformation %s: S-S bond %s%d - %s%d, bridge flags %r / %r" % (
                    name, heavy[i].res_name, heavy[i].res_num, heavy[j].res_name, heavy[j].res_num, heavy[i].cysteine_bridge, heavy[j].cysteine_bridge)})
                break


def pose_case(rng, viol, counts):
    from .. import obs, pdbio, sources
    name = rng.choice(sources.PROTEINS)
    recs = sources.full_protein(name)
    u_ = rng.random()
    if u_ < 0.3:
        # several conformations: the same atoms (serials restarting) in two or three MODELs, side chains jittered
        from .. import multiconf
        recs, _d = multiconf.build(rng, base=sources.random_small_structure(rng, 120, 700))
    elif u_ < 0.5:
        # an ion within bonding distance of a protein atom (a tight metal site)
        from .. import fragments
        from .c16 import titratable_anchor
        recs = sources.random_small_structure(rng, 120, 700)
        for _try in range(5):
            # (tests/pdb/1HPX-warn.pdb repeats an atom record: an ion bonded to two coinciding atoms is no test of the rule)
            if sources.identities_unique(recs):
                break
            recs = sources.random_small_structure(rng, 120, 700)
        frag, _e, _d = fragments.place_near(recs, rng.choice(("ion:ZN", "ion:MG", "ion:CU", "ion:FE")), rng, anchor=titratable_anchor(recs, rng),
                                            dist_A=rng.choice((1.85, 1.95, 2.05, 2.3)), min_clear_A=1.7)
        if frag and sources.identities_unique(recs):
            recs = recs + frag
    rot = rng.choice(pdbio.ROTATIONS)
    tr = tuple(rng.choice((0, 1, -1, BOX, -BOX * 7, 123456, -700000)) for _ in range(3))
    recs = pdbio.move(recs, rot, tr)
    if not pdbio.fits(recs):
        recs = pdbio.move(sources.full_protein(name), rot, (0, 0, 0))
        tr = (0, 0, 0)
    run = obs.run_single(pdbio.dump(recs), write_pka=False, keep_mol=True)
    counts["pipeline_runs"] = 1
    if run.exc:
        viol.append({"cls": "bonds-exception", "msg": "single() raised %s on %s" % (run.exc, name)})
    else:
        bridged_carries_no_charge(run, viol, counts)
        if run.mol is not None:
            pipeline_bonds_follow_the_rule(run.mol, viol, counts)
        conf = run.rec["confs"][run.rec["names"][0]]
        for g in conf["groups"]:
            if g["rtype"] == "CYS" and (g["bridge"] != (abs(g["pka"] - 99.99) < 1e-9) or g["bridge"] == g["titratable"]):
                viol.append({"cls": "bridged-cys-state", "msg": "%s: bridge=%s titratable=%s pka=%.2f" % (
                    g["label"], g["bridge"], g["titratable"], g["pka"])})
    return {"kind": "pose", "file": name, "rot": rot, "trans": tr, "exc": run.exc}


def verdict(tier, counts, classes, nontrivial, results):
    reasons = []
    dirs = {c for c in classes if c.startswith("dir:")}
    if len(dirs) < 26:
        reasons.append("only %d of 26 neighbour directions observed with reference bonds" % len(dirs))
    for t in ("threshold:H-X", "threshold:X-Y", "threshold:S-S"):
        if t not in classes:
            reasons.append("%s never exercised" % t)
    if counts.get("bond_contract", 0) == 0:
        reasons.append("bond contract never evaluated")
    if counts.get("ss_bonds", 0) == 0:
        reasons.append("no S-S bond observed")
    return reasons
