"""C19 - hybrid-36 decoding over the whole range; serials never influence predictions."""
import itertools
import random

from ..oracles import hybrid36_ref as ref

RULE = ("enumeration cases walk the encoding order of one (width, segment, first character) "
        "block and compare propka.hybrid36.decode with a counter (=> decode(enc(n))==n and "
        "strict monotonicity), padded and unpadded; malformed cases feed strings over the "
        "alphabet [0-9A-Za-z -+._*] classified by an independent regular grammar; pipeline "
        "cases rewrite the serial column of a structure. A case is non-trivial when it "
        "contains at least one base-36 value, one malformed string or one rewritten serial; "
        "distinct = distinct case descriptors."
        " Serial cases also run under -k / --protonate-all / both / -d, half of the amino-acid inputs with the program's own hydrogens written back; dedicated cases read hydrogens through -k --protonate-all with serials 1..N in another order.")
EXPLANATION = ("thorough: every valid value of widths 1-5 is enumerated (exhaustive for the "
               "valid-value clause); malformed strings exhaustive to width 3, sampled beyond")
EXHAUSTIVE = {"quick": False, "thorough": False}
RULE = RULE + ' Round 8: malformed fields also go through the record door Atom(line=...); 35 % of the serial cases carry nucleotides, ligand fragments or ions.'
RULE = RULE + ' Rounds 11-12: letter-led fields with non-ASCII digits; a sulfate ligand in the serial cases; serial 0 on file hydrogens under -k.'
ASSUMPTIONS = ["a leading '-' in front of the letter forms is accepted (pinned by "
               "tests/test_hybrid36.py), so it is not counted as malformed",
               "reference grammar: optional sign, then digits+ | [A-Z][0-9A-Z]* | [a-z][0-9a-z]*"]
ALPHABET = ref.DIG_U + ref.DIG_L[10:] + " -+._*"
TIMEOUT = {"quick": 1200, "thorough": 7200}


def generate(tier, seed):
    cases = []
    widths_full = (1, 2, 3) if tier == "quick" else (1, 2, 3, 4, 5)
    for w in widths_full:
        cases.append({"kind": "dec", "w": w, "cost": 10 ** w / 1e5})
        for seg, digits in (("U", ref.DIG_U), ("L", ref.DIG_L)):
            for first in digits[10:]:
                cases.append({"kind": "seg", "w": w, "seg": seg, "first": first,
                              "cost": 36 ** (w - 1) / 1e5})
    if tier == "quick":
        for w in (4, 5):
            for k in range(8):
                cases.append({"kind": "boundary", "w": w, "part": k, "cost": 1})
            for k in range(8):
                cases.append({"kind": "random", "w": w, "n": 12500, "seed": "%d:%d:%d" % (seed, w, k),
                              "cost": 1})
    # malformed
    for w in (1, 2):
        cases.append({"kind": "mal_all", "w": w, "first": None, "cost": len(ALPHABET) ** w / 1e5})
    for first in ALPHABET:
        cases.append({"kind": "mal_all", "w": 3, "first": first, "cost": len(ALPHABET) ** 2 / 1e5})
    nmal = 16 if tier == "quick" else 256
    per = 12500 if tier == "quick" else 200000
    for k in range(nmal):
        cases.append({"kind": "mal_rand", "n": per, "seed": "%d:mal:%d" % (seed, k), "cost": 2})
    # pipeline: serial rewrites
    npipe = 120 if tier == "quick" else 6000
    for k in range(npipe):
        cases.append({"kind": "serial", "seed": "%d:serial:%d" % (seed, k), "cost": 30})
    # ... with input hydrogens read through -k --protonate-all (file hydrogens keep their file serial
    # while all other atoms are renumbered), serials 1..N in another order
    for k in range(60 if tier == "quick" else 3000):
        cases.append({"kind": "serial", "door": "keep+protonate-all", "seed": "%d:serialk:%d" % (seed, k), "cost": 30})
    return cases


def setup(tier):
    from .. import contracts
    contracts.import_all_propka()
    install_decode_contract()


def install_decode_contract():
    """Contract on every decode call (also the alias in propka.atom)."""
    from .. import contracts
    import propka.hybrid36 as h

    def post(snap, result, exc, args, kwargs):
        s = args[0] if args else kwargs.get("input_string")
        contracts.count("decode_contract")
        exp = ref.expected(s)
        if exp[0] == "value":
            if exc is not None or result != exp[1]:
                contracts.report("decode-wrong-value", "decode(%r) -> %r / %r, expected %d" % (
                    s, result, type(exc).__name__ if exc else None, exp[1]), field=s)
        else:
            if not isinstance(exc, ValueError):
                contracts.report(classify_malformed(s), "decode(%r) -> %r / %r, expected ValueError" % (
                    s, result, type(exc).__name__ if exc else None), field=s)
    contracts.install(h, "decode", post=post)


def classify_malformed(s):
    """Mechanism class of an accepted malformed field."""
    t = s.strip()
    body = t[1:] if t.startswith("-") else t
    if body[:1].isdigit() and "_" in body and all(c.isdigit() or c == "_" for c in body):
        return "decimal-underscore-accepted"
    return "malformed-accepted"


def _check_value(decode, s, n, viol):
    try:
        got = decode(s)
    except Exception as e:
        viol.append({"cls": "decode-wrong-value", "msg": "decode(%r) raised %s, expected %d" % (
            s, type(e).__name__, n)})
        return
    if got != n or isinstance(got, bool):
        viol.append({"cls": "decode-wrong-value", "msg": "decode(%r) = %r, expected %d" % (s, got, n)})


_LINE = "ATOM  %5s  N   ALA A   1      11.000  12.000  13.000  1.00  0.00           N"


def record_door(s):
    """The serial field as it is met in practice: columns 7-11 of an atom record read by Atom(line=...)."""
    import propka.atom
    return propka.atom.Atom(line=_LINE % s).numb


def _check_record_door(s, viol, counts):
    """A field of five columns, right-justified: what the decoder must reject, the record reader rejects too."""
    fld = s.rjust(5)[:5]
    exp = ref.expected(fld)
    counts["record_door_fields"] = counts.get("record_door_fields", 0) + 1
    try:
        got = record_door(fld)
    except ValueError:
        got = ValueError
    except Exception as e:
        viol.append({"cls": "record-door-wrong-exception", "msg": "atom record with serial field %r raised %s" % (fld, type(e).__name__)})
        return
    if exp[0] == "value":
        if got != exp[1]:
            viol.append({"cls": "record-door-wrong-value", "msg": "atom record with serial field %r read as %r, expected %d" % (fld, got, exp[1])})
    elif got is not ValueError:
        viol.append({"cls": "record-door-accepts-malformed-serial", "msg": "atom record with serial field %r read as %r, expected ValueError" % (fld, got)})


def _check_malformed(decode, s, viol, counts):
    if len(s) <= 5 and (len(s) < 4 or counts.get("malformed", 0) % 5 == 0):
        _check_record_door(s, viol, counts)
    exp = ref.expected(s)
    if exp[0] == "value":
        counts["valid_in_malformed_enum"] = counts.get("valid_in_malformed_enum", 0) + 1
        _check_value(decode, s, exp[1], viol)
        return
    counts["malformed"] = counts.get("malformed", 0) + 1
    try:
        got = decode(s)
    except ValueError:
        return
    except Exception as e:
        viol.append({"cls": "malformed-wrong-exception",
                     "msg": "decode(%r) raised %s instead of ValueError" % (s, type(e).__name__)})
        return
    viol.append({"cls": classify_malformed(s),
                 "msg": "decode(%r) = %r, expected ValueError" % (s, got)})


def run_case(case, tier):
    import propka.hybrid36
    import propka.atom
    from .. import contracts
    # enumerations call the real function directly; the contract wrapper (installed by
    # setup) observes the calls made by the pipeline itself
    decode = getattr(propka.hybrid36.decode, "__wrapped_orig__", propka.hybrid36.decode)
    viol = []
    counts = {}
    kind = case["kind"]
    nontrivial = True
    sample = None
    if kind == "dec":
        w = case["w"]
        lo, hi = ref.limits(w)
        prev = None
        for n in range(lo, 10 ** w):
            for s in (ref.encode(n, w), ref.encode(n, w, pad=False), ref.encode(n, w).rjust(w + 2)):
                _check_value(decode, s, n, viol)
            if len(viol) > 20:
                break
        counts["valid_values"] = 10 ** w - lo
        nontrivial = w >= 2
        sample = {"kind": kind, "w": w, "first": ref.encode(lo, w), "last": ref.encode(10 ** w - 1, w)}
    elif kind == "seg":
        w, seg, first = case["w"], case["seg"], case["first"]
        digits = ref.DIG_U if seg == "U" else ref.DIG_L
        base = 10 ** w + (0 if seg == "U" else 26 * 36 ** (w - 1))
        n = base + (digits.index(first) - 10) * 36 ** (w - 1)
        start = n
        prev = None
        for rest in itertools.product(digits, repeat=w - 1):
            s = first + "".join(rest)
            try:
                got = decode(s)
            except Exception as e:
                got = "raised %s" % type(e).__name__
            if got != n:
                viol.append({"cls": "decode-wrong-value",
                             "msg": "decode(%r) = %r, expected %d" % (s, got, n)})
                if len(viol) > 20:
                    break
            elif prev is not None and not got > prev:
                viol.append({"cls": "decode-not-monotone", "msg": "decode(%r) = %r after %r" % (s, got, prev)})
            prev = got if isinstance(got, int) else prev
            n += 1
        # padded forms for a sample of this block, and cross-check with the reference encoder
        rng = random.Random("%s%s%d" % (seg, first, w))
        for _ in range(200):
            m = rng.randrange(start, start + 36 ** (w - 1))
            s = ref.encode(m, w)
            for form in (s, " " + s, s + " ", "  " + s + "  "):
                _check_value(decode, form, m, viol)
        counts["valid_values"] = 36 ** (w - 1)
        sample = {"kind": kind, "w": w, "from": ref.encode(start, w), "to": ref.encode(n - 1, w),
                  "values": [start, n - 1]}
    elif kind == "boundary":
        w, part = case["w"], case["part"]
        lo, hi = ref.limits(w)
        seg = 26 * 36 ** (w - 1)
        marks = [lo, 0, 10 ** w, 10 ** w + seg, hi, 10 ** (w - 1), 10 ** w + seg // 2,
                 10 ** w + seg + seg // 2]
        c = marks[part]
        nv = 0
        for n in range(max(lo, c - 2000), min(hi, c + 2000) + 1):
            _check_value(decode, ref.encode(n, w), n, viol)
            _check_value(decode, ref.encode(n, w, pad=False), n, viol)
            nv += 1
        counts["valid_values"] = nv
        sample = {"kind": kind, "w": w, "around": c, "enc": ref.encode(c, w)}
    elif kind == "random":
        w = case["w"]
        rng = random.Random(case["seed"])
        lo, hi = ref.limits(w)
        for _ in range(case["n"]):
            n = rng.randint(lo, hi)
            _check_value(decode, ref.encode(n, w), n, viol)
        counts["valid_values"] = case["n"]
        sample = {"kind": kind, "w": w, "n": case["n"]}
    elif kind == "mal_all":
        w, first = case["w"], case["first"]
        if first is None:
            it = itertools.product(ALPHABET, repeat=w)
        else:
            it = ((first,) + r for r in itertools.product(ALPHABET, repeat=w - 1))
        for tup in it:
            _check_malformed(decode, "".join(tup), viol, counts)
            if len(viol) > 40:
                break
        if w == 1:
            for s in ("", " ", "     ", "\t", "-", " - ", "\uff11\uff12", "\u0661\u0662\u0663", "1\t2", "1 2", "+12", "1_2", "1e2", "0x1f", "1.0",
                      # letter-led fields holding decimal digits that are not ASCII (full-width, Arabic-Indic, Devanagari)
                      "A000\uff11", "A\u0660\u0660\u0660\u0660", "z\u096dzzz", "a\uff10", "B\u0661", "Ab\uff12", "A\u00b2", "a\u2460"):
                _check_malformed(decode, s, viol, counts)
        sample = {"kind": kind, "w": w, "first": first}
    elif kind == "mal_rand":
        rng = random.Random(case["seed"])
        ex = None
        for _ in range(case["n"]):
            w = rng.choice((4, 5))
            mode = rng.random()
            if mode < 0.5:
                s = "".join(rng.choice(ALPHABET) for _ in range(w))
            else:
                # a valid field with one or two corrupted characters (mixed case etc.)
                lo, hi = ref.limits(w)
                s = list(ref.encode(rng.randint(lo, hi), w))
                for _k in range(rng.choice((1, 1, 2))):
                    s[rng.randrange(w)] = rng.choice(ALPHABET)
                s = "".join(s)
            ex = s
            _check_malformed(decode, s, viol, counts)
            if len(viol) > 40:
                break
        sample = {"kind": kind, "n": case["n"], "example": ex}
    elif kind == "serial":
        res = run_serial_case(case, viol, counts)
        sample = res
    c2, w2 = contracts.drain()
    for k, v in c2.items():
        counts[k] = counts.get(k, 0) + v
    viol.extend(w2)
    return {"violations": viol[:20], "nontrivial": nontrivial,
            "digest": repr(sorted(case.items())), "counts": counts,
            "classes": [kind + (":w%d" % case["w"] if "w" in case else "")],
            "sample": sample, "evals": sum(v for k, v in counts.items()
                                           if k in ("valid_values", "malformed", "pipeline_runs"))}


def _blank(r):
    r = r.copy()
    r.alt = " "
    return r


def run_serial_case(case, viol, counts):
    """Rewrite the serial column with arbitrary valid hybrid-36 fields: records identical."""
    from .. import obs, pdbio, sources
    rng = random.Random(case["seed"])
    recs = sources.random_small_structure(rng)
    if rng.random() < 0.4:
        # several MODELs / alternate locations (atoms are copied between conformations)
        from .. import multiconf
        recs, _d = multiconf.build(rng, base=recs)
    opts = list(rng.choice(([], [], ["-k"], ["--protonate-all"], ["-k", "--protonate-all"], ["-k", "--protonate-all"], ["-d"])))
    with_h = False
    door = case.get("door")
    if not door and rng.random() < 0.35:
        # nucleotides, ligand fragments and ions next to the protein: every kind of group label the report has
        from .. import fragments
        for k_ in range(rng.choice((1, 2))):
            fname = rng.choice(sorted(f for f in fragments.FRAGMENTS) + ["dna:DA", "dna:DC", "dna:DG", "dna:DT"] * 3 + ["ion:ZN", "ion:CL"] + ["sulfate"] * 6)
            frag, _e, _d = fragments.place_near(recs, fname, rng, dist_A=rng.choice((3.0, 4.0, 6.0)), resnum=900 + k_,
                                                chain=rng.choice(("L", "N")))
            if frag:
                recs = recs + ([pdbio.raw("TER")] if fname.startswith("dna:") else []) + frag
                counts["inputs_with_hetero_or_dna"] = 1
    if door:
        opts = ["-k", "--protonate-all"]
        first = []
        for r in recs:                       # the first model only, one alternate location, protein atoms
            if r.raw is not None and r.tag == "ENDMDL":
                break
            if r.raw is not None and r.tag == "MODEL ":
                continue
            if r.raw is None and (r.tag != "ATOM  " or r.alt not in (" ", "A")):
                continue
            first.append(r if r.raw is not None or r.alt == " " else _blank(r))
        recs = first
    if (door or rng.random() < 0.5) and all(r.raw is not None or (r.tag == "ATOM  " and r.alt == " ") for r in recs) \
            and not any(r.raw is not None and r.tag == "MODEL " for r in recs):
        # hydrogens in the input (the program's own, written back): they carry serials too
        r0 = obs.run_single(pdbio.dump(sources.no_hydrogens(recs)), with_atoms=True, write_pka=False)
        if not r0.exc and len(r0.rec["names"]) == 1:
            recs, _n, _o = sources.with_hydrogens(sources.no_hydrogens(recs), r0.rec["confs"][r0.rec["names"][0]]["hydrogens"])
            with_h = True
            counts["inputs_with_hydrogens"] = 1
    base = obs.run_single(pdbio.dump(recs), opts)
    mode = rng.choice(("random", "descending", "duplicates", "big", "negative", "restart-per-model", "shuffled"))
    if door:
        mode = rng.choice(("shuffled", "shuffled", "restart-per-model", "descending-small", "duplicates", "zero-on-hydrogens"))
    shuffled = list(range(1, len(pdbio.atoms(recs)) + 1))
    rng.shuffle(shuffled)
    out = []
    n_at = len(pdbio.atoms(recs))
    k = 0
    for r in recs:
        if r.raw is not None and r.tag == "MODEL " and mode == "restart-per-model":
            k = 0
        if r.raw is None:
            r = r.copy()
            if mode == "restart-per-model":
                r.serial = ref.encode(1 + k, 5)
            elif mode == "shuffled":
                r.serial = ref.encode(shuffled[k % len(shuffled)], 5)
            elif mode == "random":
                r.serial = ref.encode(rng.randint(-9999, 87440031), 5)
            elif mode == "descending":
                r.serial = ref.encode(87440031 - 37 * k, 5)
            elif mode == "descending-small":
                r.serial = ref.encode(n_at - k, 5)
            elif mode == "zero-on-hydrogens":
                # hydrogens appended by another program often carry the serial 0
                r.serial = ref.encode(0 if r.elem() == "H" else 1 + k, 5)
            elif mode == "duplicates":
                r.serial = ref.encode(rng.choice((1, 1, 7, 100000, 43770016, 0, 0, -1)), 5)
            elif mode == "big":
                r.serial = ref.encode(99990 + k * 9973, 5)
            else:
                r.serial = ref.encode(-9999 + k, 5)
            k += 1
        out.append(r)
    edited = obs.run_single(pdbio.dump(out), opts)
    counts["pipeline_runs"] = 2
    counts["serials_rewritten"] = k
    if base.exc or edited.exc:
        if base.exc != edited.exc:
            viol.append({"cls": "serial-influences-result",
                         "msg": "exception differs: %r vs %r (mode %s)" % (base.exc, edited.exc, mode)})
    else:
        diffs = obs.compare_runs(base, edited, tol=0.0)
        if base.text is not None and obs.strip_date(base.text) != obs.strip_date(edited.text or ""):
            diffs.append(("pka-text-differs",))
        if diffs:
            viol.append({"cls": "serial-influences-result",
                         "msg": "mode %s: %s" % (mode, obs.brief(diffs))})
    return {"kind": "serial", "mode": mode, "atoms": n_at, "opts": opts, "input_hydrogens": with_h,
            "first_serials": [r.serial for r in pdbio.atoms(out)[:3]]}


def verdict(tier, counts, classes, nontrivial, results):
    reasons = []
    if counts.get("valid_values", 0) == 0:
        reasons.append("no valid value was decoded")
    if counts.get("malformed", 0) == 0:
        reasons.append("no malformed string was tried")
    if counts.get("decode_contract", 0) == 0:
        reasons.append("decode contract never evaluated in a pipeline run")
    if tier == "thorough":
        want = sum(10 ** w + (10 ** (w - 1) - 1 if w > 1 else 0) + 52 * 36 ** (w - 1)
                   for w in range(1, 6))
        if counts.get("valid_values", 0) < want:
            reasons.append("enumeration incomplete: %d < %d" % (counts.get("valid_values", 0), want))
    return reasons
