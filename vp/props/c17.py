"""C17 - added hydrogens are chemically placed and complete."""
import random

RULE = ("each case runs a structure (repository proteins, cut-outs, chimeras; with and without "
        "--protonate-all) in a random lattice pose and again in the original frame. Contract on every "
        "Protonate.add_proton call: the new hydrogen has exactly one bonded atom, lies at the tabulated "
        "X-H length within coordinate rounding (sqrt(3)*0.0005 A) and >= 0.5 A from its siblings; the "
        "same clauses are re-checked on all hydrogens of the result. Completeness: for residues that are "
        "complete with regular covalent geometry (perceived heavy-atom bond graph == template, only "
        "peptide / disulfide links to other residues) His has 2, Arg 5, Asn/Gln 2, Trp 1 and every "
        "non-Pro, non-N-terminal residue bonded to a preceding C has 1 amide hydrogen, and no 'Missing "
        "atoms or failed protonation' warning names them. Orientation: hydrogen positions of the moved "
        "run mapped back agree within 0.001 A per coordinate (protein atoms; hetero rotors and, under "
        "--protonate-all, atoms with one heavy neighbour are excluded as frame-dependent by design). "
        "Non-trivial: >= 20 hydrogens added and >= 1 regular residue with a side-chain complement "
        "claim; distinct = distinct (structure digest, pose, options).")
ASSUMPTIONS = ["the regular-geometry precondition is decided by the harness from the perceived bonds",
               "labels omit insertion codes, so inputs with insertion-code twins are not used for the warning clause"]
TIMEOUT = {"quick": 2400, "thorough": 14400}


def generate(tier, seed):
    from .. import sources
    cases = []
    for name in sources.PROTEINS + sources.SMALL:
        for opt in ("", "--protonate-all"):
            cases.append({"kind": "file", "file": name, "opt": opt, "seed": "%d:%s:%s" % (seed, name, opt),
                          "cost": 200 if name in sources.PROTEINS else 5})
    n = 350 if tier == "quick" else 20000
    for k in range(n):
        cases.append({"kind": "built", "opt": "--protonate-all" if k % 3 == 0 else "", "seed": "%d:b:%d" % (seed, k), "cost": 30})
    return cases


def setup(tier):
    from .. import contracts
    from ..monitors import protonate_mon
    contracts.import_all_propka()
    protonate_mon.install()


def run_case(case, tier):
    from .. import motion, obs, pdbio, sources, util
    from ..monitors import protonate_mon
    rng = random.Random(case["seed"])
    viol, counts, classes = [], {}, []
    if case["kind"] == "file":
        recs = sources.full_protein(case["file"])
    elif rng.random() < 0.7:
        recs = sources.random_small_structure(rng, 80, 900)
    else:
        recs, _ = sources.chimera(rng)
    recs = sources.no_hydrogens(recs)
    if case["kind"] == "built" and rng.random() < 0.25:
        # a modified residue written as HETATM inside the chain (like MSE): its neighbours are
        # still regular residues with their chain neighbour present
        rl = sources.residue_list(recs)
        inner = [i for i in range(1, len(rl) - 1) if rl[i].key[0] == "ATOM  " and not rl[i].ter_before and not rl[i + 1].ter_before
                 and rl[i].key[4] in ("MET", "LEU", "ALA", "VAL", "ILE", "PHE", "SER")]
        if inner:
            i = rng.choice(inner)
            for k, a_ in enumerate(rl[i].atoms):
                a_ = a_.copy()
                a_.tag = "HETATM"
                a_.resn = "MSE" if rl[i].key[4] == "MET" else "UNK"
                rl[i].atoms[k] = a_
            recs = sources.emit(rl)
            classes.append("in-chain-hetero-residue")
    opts = [case["opt"]] if case["opt"] else []
    rot, trans, tkind, moved = motion.random_pose(rng, recs)
    back_key, inv, tinv = motion.key_mapper(rot, trans)
    back_xyz = motion.float_back(rot, trans)
    desc = sources.describe(recs)
    desc.update({"kind": case["kind"], "file": case.get("file"), "opts": opts, "rot": rot, "trans": trans})
    run0 = obs.run_single(pdbio.dump(recs), opts, with_atoms=True, write_pka=False)
    runT = obs.run_single(pdbio.dump(moved), opts, with_atoms=True, write_pka=False)
    counts["pipeline_runs"] = 2
    if run0.exc or runT.exc:
        classes.append("raised")
        return util.finish(case, viol, counts, classes, False, desc, inconclusive="raised %r %r" % (run0.exc, runT.exc))
    nh = 0
    nclaims = 0
    twins = False
    seen = {}
    for r in recs:
        if r.raw is None:
            seen.setdefault((r.chain, r.resnum), set()).add(r.icode)
    twins = any(len(v) > 1 for v in seen.values())
    for run in (run0, runT):
        for name in run.rec["names"]:
            conf = run.rec["confs"][name]
            protonate_mon.check_hydrogens_boundary(conf, viol, counts)
            nh += len(conf["hydrogens"])
            if not twins:
                before = counts.get("sidechain_hydrogen_claims", 0)
                # warnings carry no conformation name: the warning clause is judged on
                # single-conformation inputs only
                warns = run.rec["warnings"] if len(run.rec["names"]) == 1 else []
                protonate_mon.check_completeness(conf, warns, viol, counts, classes)
                nclaims += counts.get("sidechain_hydrogen_claims", 0) - before
    # keep-protons round trip: the program's own hydrogens (all, or a random part of them) are
    # supplied with -k; regular residues must end up with exactly their complement
    if not opts and len(run0.rec["names"]) == 1 and not twins and rng.random() < 0.5:
        hyd = run0.rec["confs"][run0.rec["names"][0]]["hydrogens"]
        frac = rng.choice((1.0, 1.0, 0.5, 0.8))
        part = [h for h in hyd if rng.random() < frac]
        withh, nadd, _ = sources.with_hydrogens(recs, part)
        runk = obs.run_single(pdbio.dump(withh), ["-k"], with_atoms=True, write_pka=False)
        counts["pipeline_runs"] += 1
        counts["keep_protons_round_trips"] = counts.get("keep_protons_round_trips", 0) + 1
        if runk.exc:
            viol.append({"cls": "keep-protons-raises", "msg": "-k with the program's own hydrogens raised %s" % runk.exc})
        else:
            confk = runk.rec["confs"][runk.rec["names"][0]]
            # hydrogens that were supplied may legitimately touch a second heavy atom; judge counts only
            from ..props.c07 import hydrogen_contacts
            if hydrogen_contacts(withh) == 0:
                protonate_mon.check_completeness(confk, runk.rec["warnings"], viol, counts, classes)
                classes.append("keep-protons-%s" % ("all" if frac == 1.0 else "partial"))
    # orientation clause
    pa = bool(opts)

    def exclude(hs):
        # hetero groups: rotors are frame-dependent by design (statement of C04)
        return bool(hs) and hs[0]["type"] != "atom"
    motion.compare_hydrogens(run0, runT, back_xyz, back_key, viol, counts, exclude=exclude)
    if pa:
        # under --protonate-all terminal rotors (one heavy neighbour) are built from orthogonal()
        viol[:] = [v for v in viol if v["cls"] != "rotor-hydrogen-frame-dependent"]
        classes.append("protonate-all")
    classes.append("rot:" + ("identity" if rot == pdbio.IDENTITY else "nontrivial"))
    desc["hydrogens"] = nh
    import hashlib
    return util.finish(case, viol, counts, classes, nh >= 20 and nclaims >= 1, desc,
                       digest=hashlib.sha1((pdbio.dump(recs) + repr(rot) + repr(trans) + repr(opts)).encode()).hexdigest()[:16])


def verdict(tier, counts, classes, nontrivial, results):
    reasons = []
    if counts.get("add_proton_contract", 0) == 0:
        reasons.append("contract on add_proton never evaluated")
    if counts.get("amide_hydrogen_claims", 0) == 0 or counts.get("sidechain_hydrogen_claims", 0) == 0:
        reasons.append("completeness clause never evaluated")
    for r in ("HIS", "ARG", "ASN", "GLN", "TRP"):
        if "complement:" + r not in classes:
            reasons.append("no regular %s residue seen" % r)
    if counts.get("hydrogens_compared", 0) == 0:
        reasons.append("orientation clause never evaluated")
    if nontrivial < 8:
        reasons.append("fewer than 8 non-trivial cases")
    return reasons
