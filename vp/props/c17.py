"""C17 - added hydrogens are chemically placed and complete."""
import random

RULE = ("each case runs a structure (repository proteins, cut-outs, chimeras; with and without "
        "--protonate-all) in a random lattice pose and again in the original frame. Contract on every "
        "Protonate.add_proton call: the new hydrogen has exactly one bonded atom, lies at the tabulated "
        "X-H length within coordinate rounding (sqrt(3)*0.0005 A) and >= 0.5 A from its siblings; the "
        "same clauses are re-checked on all hydrogens of the result. Completeness: for residues that are "
        "complete with regular covalent geometry (perceived heavy-atom bond graph == template, only "
        "peptide / disulfide links to other residues) His has 2, Arg 5, Asn/Gln 2, Trp 1 and every "
        "non-Pro, non-N-terminal residue bonded to a preceding C has 1 amide hydrogen, and no 'Missing "
        "atoms or failed protonation' warning names them. Orientation: hydrogen positions of the moved "
        "run mapped back agree within 0.001 A per coordinate (protein atoms; hetero rotors and, under "
        "--protonate-all, atoms with one heavy neighbour are excluded as frame-dependent by design). "
        "Non-trivial: >= 20 hydrogens added and >= 1 regular residue with a side-chain complement "
        "claim; distinct = distinct (structure digest, pose, options).")
RULE = RULE + " Round 8: 25 % of the built cases write ions (CD, CA, HG, ZN) before the protein; the moved frame's first conformation is written with write_pdb_for_atoms and read back by column."
RULE = RULE + ' Rounds 10-12: axis-aligned and other library ligands (amides, amidinium, imidazole ...); multi-conformation cases (without insertion-code twins).'
ASSUMPTIONS = ["the regular-geometry precondition is decided by the harness from the perceived bonds",
               "labels omit insertion codes, so inputs with insertion-code twins are not used for the warning clause (their hydrogen counts are judged)"]
TIMEOUT = {"quick": 2400, "thorough": 14400}


def generate(tier, seed):
    from .. import sources
    cases = []
    for name in sources.PROTEINS + sources.SMALL:
        for opt in ("", "--protonate-all"):
            cases.append({"kind": "file", "file": name, "opt": opt, "seed": "%d:%s:%s" % (seed, name, opt),
                          "cost": 200 if name in sources.PROTEINS else 5})
    n = 350 if tier == "quick" else 20000
    for k in range(n):
        cases.append({"kind": "built", "opt": "--protonate-all" if k % 3 == 0 else "", "seed": "%d:b:%d" % (seed, k), "cost": 30})
    # two cysteines with S-S distances around and beyond the disulfide criterion, along a lattice
    # axis, translated in small steps: the hydrogen set must be the same at every offset
    k = 0
    for d in (2300, 2450, 2550, 2800, 3200):
        for axis in (0, 1, 2):
            for opt in ("--protonate-all", ""):
                if tier == "quick" and (axis + k) % 2:
                    k += 1
                    continue
                cases.append({"kind": "cys-sweep", "d": d, "axis": axis, "opt": opt, "seed": "%d:cs:%d" % (seed, k), "cost": 60})
                k += 1
    return cases


def setup(tier):
    from .. import contracts
    from ..monitors import protonate_mon
    contracts.import_all_propka()
    protonate_mon.install()


def cys_sweep(case, rng, viol, counts, classes):
    from .. import obs, pdbio
    from ..monitors import protonate_mon
    from .c11 import _cys_residue
    res = _cys_residue()
    sg = [a for a in res if a.aname() == "SG"][0]
    n0 = min(a.resnum for a in res)
    r1 = pdbio.move(res, pdbio.IDENTITY, (-sg.x, -sg.y, -sg.z))
    rot = rng.choice([r for r in pdbio.ROTATIONS if r != pdbio.IDENTITY])
    r2 = pdbio.move(res, rot, (0, 0, 0))
    sg2 = [a for a in r2 if a.aname() == "SG"][0]
    v = [0, 0, 0]
    v[case["axis"]] = case["d"] * rng.choice((1, -1))
    r2 = pdbio.move(r2, pdbio.IDENTITY, (v[0] - sg2.x, v[1] - sg2.y, v[2] - sg2.z))
    for a in r1:
        a.chain, a.resnum = "A", 10 + a.resnum - n0
    for a in r2:
        a.chain, a.resnum = "B", 20 + a.resnum - n0
    recs = r1 + [pdbio.raw("TER")] + r2
    opts = [case["opt"]] if case["opt"] else []
    origin = [rng.randrange(-30000, 30000) for _ in range(3)]
    ref = None
    for step in range(0, 130):
        t = list(origin)
        t[case["axis"]] += 25 * step
        run = obs.run_single(pdbio.dump(pdbio.move(recs, pdbio.IDENTITY, tuple(t))), opts, with_atoms=True, write_pka=False)
        counts["pipeline_runs"] = counts.get("pipeline_runs", 0) + 1
        counts["sweep_poses"] = counts.get("sweep_poses", 0) + 1
        if run.exc:
            viol.append({"cls": "sweep-raises", "msg": run.exc})
            break
        conf = run.rec["confs"][run.rec["names"][0]]
        protonate_mon.check_hydrogens_boundary(conf, viol, counts)
        sig = sorted(((h["parents"][0][0], h["parents"][0][1] - t[0], h["parents"][0][2] - t[1], h["parents"][0][3] - t[2]),
                      round(h["xyz"][0] * 1000) - t[0], round(h["xyz"][1] * 1000) - t[1], round(h["xyz"][2] * 1000) - t[2])
                     for h in conf["hydrogens"] if h["parents"])
        if ref is None:
            ref = sig
        elif len(sig) != len(ref) or any(a[0] != b[0] or max(abs(a[i] - b[i]) for i in (1, 2, 3)) > 1 for a, b in zip(sig, ref)):
            viol.append({"cls": "pose-changes-hydrogen-count" if len(sig) != len(ref) else "pose-changes-hydrogen-position",
                         "msg": "two CYS, S-S %.2f A along axis %d, options %r: at offset %.3f A %d hydrogens, at offset 0 %d" % (
                             case["d"] / 1000.0, case["axis"], opts, step * 0.025, len(sig), len(ref))})
            break
    classes.append("cys-sweep:%s" % ("protonate-all" if opts else "default"))
    return {"kind": "cys-sweep", "d": case["d"], "axis": case["axis"], "opts": opts}


def written_structure(mol, viol, counts, classes):
    """The protonated structure written by the package's PDB writer (propka.output.write_pdb_for_atoms): read by
    column, every atom - the added hydrogens included - stands where the program holds it."""
    import os
    import propka.output as po
    from .. import util
    conf = mol.conformations[mol.conformation_names[0]]
    path = os.path.join(util.worker_tmp(), "c17_written.pdb")
    po.write_pdb_for_atoms(conf.atoms, path)
    with open(path) as fh:
        lines = [l for l in fh.read().split("\n") if l[:6] in ("ATOM  ", "HETATM")]
    if len(lines) != len(conf.atoms):
        viol.append({"cls": "written-structure-differs", "msg": "%d atoms held, %d records written" % (len(conf.atoms), len(lines))})
        return
    far = False
    for l, a in zip(lines, conf.atoms):
        counts["written_atom_records"] = counts.get("written_atom_records", 0) + 1
        try:
            xyz = (float(l[30:38]), float(l[38:46]), float(l[46:54]))
        except ValueError:
            xyz = None
        if min(a.x, a.y, a.z) <= -100.0 and a.element == "H":
            far = True
        if not all(-999.9995 < c_ < 9999.9995 for c_ in (a.x, a.y, a.z)):
            continue            # outside what an 8.3 field can hold (hydrogens of atoms at the edge of the field)
        if xyz is None or any(abs(u - v) > 0.00051 for u, v in zip(xyz, (a.x, a.y, a.z))):
            viol.append({"cls": "written-structure-differs", "msg": "atom %s of %s%d (element %s) is held at (%.3f %.3f %.3f) and written as %r" % (
                a.name, a.res_name, a.res_num, a.element, a.x, a.y, a.z, l[26:54])})
            return
    if far:
        classes.append("written-hydrogen-beyond-minus-100")


def run_case(case, tier):
    from .. import motion, obs, pdbio, sources, util
    from ..monitors import protonate_mon
    rng = random.Random(case["seed"])
    viol, counts, classes = [], {}, []
    if case["kind"] == "cys-sweep":
        desc = cys_sweep(case, rng, viol, counts, classes)
        return util.finish(case, viol, counts, classes, True, desc)
    if case["kind"] == "file":
        recs = sources.full_protein(case["file"])
    elif rng.random() < 0.7:
        recs = sources.random_small_structure(rng, 80, 900)
    else:
        recs, _ = sources.chimera(rng)
    recs = sources.no_hydrogens(recs)
    if False and case["kind"] == "built" and rng.random() < 0.1 and not any(r.raw is None and r.icode != " " for r in recs):
        # (withdrawn - correction 46 of DESIGN section 8: the later models of these cases are jittered copies without
        # regular covalent geometry, on which the placement clauses alarm on the unchanged tree)
        # (no residues that differ in the insertion code only: completing conformations merges such twins - the known
        # finding - and a merged histidine sends the package's ring search into exponential time)
        # several models / alternate locations with mutants and missing residues: every conformation is completed
        # with atoms of the others, and each of them gets its own hydrogens
        from .. import multiconf
        # (protein atoms only: the later models are jittered copies, and a ligand with distorted geometry is no
        # test of hydrogen placement)
        recs, _dm = multiconf.build(rng, base=[r for r in recs if r.raw is not None or r.tag == "ATOM  "])
        classes.append("conformations-that-differ")
    if case["kind"] == "built" and "conformations-that-differ" not in classes and rng.random() < 0.25:
        # a modified residue written as HETATM inside the chain (like MSE): its neighbours are
        # still regular residues with their chain neighbour present
        rl = sources.residue_list(recs)
        inner = [i for i in range(1, len(rl) - 1) if rl[i].key[0] == "ATOM  " and not rl[i].ter_before and not rl[i + 1].ter_before
                 and rl[i].key[4] in ("MET", "LEU", "ALA", "VAL", "ILE", "PHE", "SER")]
        if inner:
            i = rng.choice(inner)
            for k, a_ in enumerate(rl[i].atoms):
                a_ = a_.copy()
                a_.tag = "HETATM"
                a_.resn = "MSE" if rl[i].key[4] == "MET" else "UNK"
                rl[i].atoms[k] = a_
            recs = sources.emit(rl)
            classes.append("in-chain-hetero-residue")
    if case["kind"] == "built" and rng.random() < 0.2:
        # slightly pyramidal sp2 carbons (ARG CZ, ASN CG, GLN CD pushed 0.08-0.2 A out of the plane of their
        # three neighbours, as in real low-resolution structures): the amide / guanidinium hydrogens must
        # still be the same in every orientation
        import math
        want = {("ARG", "CZ"): ("NE", "NH1", "NH2"), ("ASN", "CG"): ("CB", "OD1", "ND2"), ("GLN", "CD"): ("CG", "OE1", "NE2")}
        byres = {}
        for r in recs:
            if r.raw is None:
                byres.setdefault((r.chain, r.resnum, r.icode, r.resn), {})[r.aname()] = r
        moved_c = {}
        for (ch, num, ic, resn), atoms_ in byres.items():
            for (rn, cn), nb in want.items():
                if resn == rn and cn in atoms_ and all(n in atoms_ for n in nb) and rng.random() < 0.6:
                    p = [(atoms_[n].x, atoms_[n].y, atoms_[n].z) for n in nb]
                    u = [p[1][k] - p[0][k] for k in range(3)]
                    v = [p[2][k] - p[0][k] for k in range(3)]
                    nrm = [u[1] * v[2] - u[2] * v[1], u[2] * v[0] - u[0] * v[2], u[0] * v[1] - u[1] * v[0]]
                    ln = math.sqrt(sum(c * c for c in nrm)) or 1.0
                    d = rng.choice((80, 120, 150, 200)) * rng.choice((1, -1))
                    moved_c[atoms_[cn].akey()] = tuple(int(round(d * c / ln)) for c in nrm)
        if moved_c:
            out_ = []
            for r in recs:
                if r.raw is None and r.akey() in moved_c:
                    dx, dy, dz = moved_c[r.akey()]
                    r = r.copy()
                    r.x, r.y, r.z = r.x + dx, r.y + dy, r.z + dz
                out_.append(r)
            recs = out_
            classes.append("pyramidal-sp2-carbons")
    if case["kind"] == "built" and rng.random() < 0.25:
        # hetero records in front of the protein (some programs write ions and ligands first): ions whose atom
        # names are also names of protein atoms when the justification is ignored (CD, CA, HG) among them
        from .. import fragments
        first = []
        for k_ in range(rng.choice((1, 2))):
            ion = rng.choice(("CD", "CA", "HG", "ZN", "CD", "CA"))
            frag, _e, _d = fragments.place_near(recs + first, "ion:" + ion, rng, dist_A=rng.choice((4.0, 6.0, 9.0, 15.0)),
                                                resnum=950 + k_, min_clear_A=2.7)
            if frag:
                first += frag
        if first:
            recs = first + recs
            classes.append("ions-written-before-the-protein")
    if case["kind"] == "built" and rng.random() < 0.25:
        # a model-built ligand: bonds exactly along the coordinate axes (in the lattice poses every one of
        # +-x, +-y, +-z occurs); its hydrogens are built around a direction perpendicular to such a bond
        from .. import fragments
        fname = rng.choice(("methanol", "methanethiol", "methylamine", "fluoromethane", "chloromethane", "acetonitrile",
                            "ethylenediamine", "dimethylamine", "acetate", "acetamidinium", "n-methylacetamide", "aniline",
                            "imidazole", "methylguanidinium", "pyridine", "methylacetate"))
        frag, _e, _d = fragments.place_near(recs, fname, rng, dist_A=rng.choice((3.5, 5.0, 8.0)), resnum=960, min_clear_A=3.0,
                                            lattice=rng.random() < 0.6, shuffle=rng.random() < 0.3)
        if frag:
            recs = recs + frag
            classes.append("axis-aligned-ligand")
    opts = [case["opt"]] if case["opt"] else []
    rot, trans, tkind, moved = motion.random_pose(rng, recs)
    back_key, inv, tinv = motion.key_mapper(rot, trans)
    back_xyz = motion.float_back(rot, trans)
    desc = sources.describe(recs)
    desc.update({"kind": case["kind"], "file": case.get("file"), "opts": opts, "rot": rot, "trans": trans})
    run0 = obs.run_single(pdbio.dump(recs), opts, with_atoms=True, write_pka=False)
    runT = obs.run_single(pdbio.dump(moved), opts, with_atoms=True, write_pka=False, keep_mol=True)
    counts["pipeline_runs"] = 2
    if run0.exc or runT.exc:
        classes.append("raised")
        return util.finish(case, viol, counts, classes, False, desc, inconclusive="raised %r %r" % (run0.exc, runT.exc))
    if runT.mol is not None:
        written_structure(runT.mol, viol, counts, classes)
        runT.mol = None
    nh = 0
    nclaims = 0
    twins = False
    seen = {}
    for r in recs:
        if r.raw is None:
            seen.setdefault((r.chain, r.resnum), set()).add(r.icode)
    twins = any(len(v) > 1 for v in seen.values())
    for run in (run0, runT):
        for name in run.rec["names"]:
            conf = run.rec["confs"][name]
            if "conformations-that-differ" in classes and name != run.rec["names"][0] and not name.endswith("A"):
                pass
            if "conformations-that-differ" in classes and name != run.rec["names"][0]:
                # the later models / states are jittered copies (no regular covalent geometry): the placement clauses
                # are judged on the first conformation, which keeps the deposited coordinates
                nh += len(conf["hydrogens"])
                continue
            protonate_mon.check_hydrogens_boundary(conf, viol, counts)
            nh += len(conf["hydrogens"])
            before = counts.get("sidechain_hydrogen_claims", 0)
            # warnings carry no conformation name and no insertion code: the warning clause is
            # judged on single-conformation inputs without insertion-code twins only; the
            # hydrogen counts (per atom, no labels involved) are judged always
            warns = run.rec["warnings"] if len(run.rec["names"]) == 1 and not twins else []
            protonate_mon.check_completeness(conf, warns, viol, counts, classes)
            nclaims += counts.get("sidechain_hydrogen_claims", 0) - before
            if twins:
                classes.append("insertion-code-twins-counted")
    # keep-protons round trip: the program's own hydrogens (all, or a random part of them) are
    # supplied with -k; regular residues must end up with exactly their complement
    if not opts and len(run0.rec["names"]) == 1 and not twins and rng.random() < 0.5:
        hyd = run0.rec["confs"][run0.rec["names"][0]]["hydrogens"]
        frac = rng.choice((1.0, 1.0, 0.5, 0.8))
        part = [h for h in hyd if rng.random() < frac]
        withh, nadd, _ = sources.with_hydrogens(recs, part)
        runk = obs.run_single(pdbio.dump(withh), ["-k"], with_atoms=True, write_pka=False)
        counts["pipeline_runs"] += 1
        counts["keep_protons_round_trips"] = counts.get("keep_protons_round_trips", 0) + 1
        if runk.exc:
            viol.append({"cls": "keep-protons-raises", "msg": "-k with the program's own hydrogens raised %s" % runk.exc})
        else:
            confk = runk.rec["confs"][runk.rec["names"][0]]
            # hydrogens that were supplied may legitimately touch a second heavy atom; judge counts only
            from ..props.c07 import hydrogen_contacts
            if hydrogen_contacts(withh) == 0:
                protonate_mon.check_completeness(confk, runk.rec["warnings"], viol, counts, classes)
                classes.append("keep-protons-%s" % ("all" if frac == 1.0 else "partial"))
    # orientation clause
    pa = bool(opts)

    def exclude(hs):
        # hetero groups: rotors are frame-dependent by design (statement of C04)
        return bool(hs) and hs[0]["type"] != "atom"
    if "conformations-that-differ" not in classes:
        # (in the multi-conformation cases residues lose atoms in some conformations; what stands in for a missing
        # neighbour is a rotor - the bond-length, coincidence and complement clauses above are judged there, the
        # orientation clause on the single-conformation cases)
        motion.compare_hydrogens(run0, runT, back_xyz, back_key, viol, counts, exclude=exclude)
    if pa:
        # under --protonate-all terminal rotors (one heavy neighbour) are built from orthogonal()
        viol[:] = [v for v in viol if v["cls"] != "rotor-hydrogen-frame-dependent"]
        classes.append("protonate-all")
    classes.append("rot:" + ("identity" if rot == pdbio.IDENTITY else "nontrivial"))
    desc["hydrogens"] = nh
    import hashlib
    return util.finish(case, viol, counts, classes, nh >= 20 and nclaims >= 1, desc,
                       digest=hashlib.sha1((pdbio.dump(recs) + repr(rot) + repr(trans) + repr(opts)).encode()).hexdigest()[:16])


def verdict(tier, counts, classes, nontrivial, results):
    reasons = []
    if counts.get("add_proton_contract", 0) == 0:
        reasons.append("contract on add_proton never evaluated")
    if counts.get("amide_hydrogen_claims", 0) == 0 or counts.get("sidechain_hydrogen_claims", 0) == 0:
        reasons.append("completeness clause never evaluated")
    for r in ("HIS", "ARG", "ASN", "GLN", "TRP"):
        if "complement:" + r not in classes:
            reasons.append("no regular %s residue seen" % r)
    if counts.get("hydrogens_compared", 0) == 0:
        reasons.append("orientation clause never evaluated")
    if nontrivial < 8:
        reasons.append("fewer than 8 non-trivial cases")
    return reasons
