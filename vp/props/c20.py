"""C20 - rotate_vector_around_an_axis is the right-handed Rodrigues rotation."""
import itertools
import math
import random

from ..oracles import rodrigues

RULE = ("family cases enumerate one zero/sign pattern of the axis (26 patterns; every zero as +0.0 and -0.0) x magnitudes "
        "{2^-10,0.5,1,2,1e3} per non-zero component x 15 angles x 7 vectors (parallel, "
        "antiparallel, 2 orthogonal, 3 random); random cases draw triples with component "
        "magnitudes log-uniform in [1e-3,1e3]; pipeline cases run structures in lattice "
        "rotations with the contract on every call made by the hydrogen builder. A triple is "
        "non-trivial when sin(theta/2) != 0 and the vector is not parallel to the axis; "
        "distinct_nontrivial counts distinct case descriptors holding >= 1 such triple.")
EXPLANATION = ("all 26 zero/sign patterns of the axis are enumerated (the measure-zero "
               "families), the rest is sampled; tolerance 1e-6*(1+|v|): measured accuracy of "
               "the real code is 2e-15 for component ratios <= 10 and 7e-9 at ratio 1e9")
RULE = RULE + ' Round 12: calls on the same two objects with components changed in place between them.'
ASSUMPTIONS = ["axis components with |c| outside [1e-12,1e12] or ratio > 1e9 are not judged "
               "(x*x under/overflow)"]
MAGS = (1e-7, 1e-4, 2.0 ** -10, 0.5, 1.0, 2.0, 1e3)
ANGLES = (0.0, math.pi / 6, -math.pi / 6, 2 * math.pi / 3, -2 * math.pi / 3,
          math.radians(109.5), -math.radians(109.5), math.pi / 2, -math.pi / 2, math.pi,
          -math.pi, 2 * math.pi, math.radians(120.0), math.radians(90), 1e-3)
PATTERNS = [p for p in itertools.product((0, 1, -1), repeat=3) if any(p)]
TIMEOUT = {"quick": 1200, "thorough": 7200}


def generate(tier, seed):
    cases = []
    for p in PATTERNS:
        cases.append({"kind": "family", "pattern": list(p), "seed": "%d:%s" % (seed, p), "cost": 3})
    nrand, per = (32, 12500) if tier == "quick" else (256, 400000)
    for k in range(nrand):
        cases.append({"kind": "random", "n": per, "seed": "%d:rand:%d" % (seed, k), "cost": per / 2000})
    npipe = 16 if tier == "quick" else 160
    for k in range(npipe):
        cases.append({"kind": "pipeline", "seed": "%d:pipe:%d" % (seed, k), "cost": 40})
    return cases


def setup(tier):
    from .. import contracts
    from ..monitors import rotate
    contracts.import_all_propka()
    rotate.install()


def _vectors(axis, rng):
    n = math.sqrt(sum(c * c for c in axis))
    k = tuple(c / n for c in axis)
    # two orthogonal directions
    h = (1.0, 0.0, 0.0) if abs(k[0]) < 0.9 else (0.0, 1.0, 0.0)
    o1 = (k[1] * h[2] - k[2] * h[1], k[2] * h[0] - k[0] * h[2], k[0] * h[1] - k[1] * h[0])
    o2 = (k[1] * o1[2] - k[2] * o1[1], k[2] * o1[0] - k[0] * o1[2], k[0] * o1[1] - k[1] * o1[0])
    out = [(k, False), (tuple(-1.3 * c for c in k), False), (o1, True), (tuple(2.5 * c for c in o2), True)]
    for _ in range(3):
        out.append((tuple(rng.uniform(-3, 3) for _ in range(3)), True))
    return out


def run_case(case, tier):
    import propka.vector_algebra as va
    from propka.vector_algebra import Vector
    from .. import contracts
    from ..monitors import rotate
    real = getattr(va.rotate_vector_around_an_axis, "__wrapped_orig__",
                   va.rotate_vector_around_an_axis)
    rng = random.Random(case["seed"])
    viol, counts, classes = [], {}, []
    sample = None
    nontriv = 0
    kind = case["kind"]

    def one(theta, axis, vec, nt):
        nonlocal nontriv
        r = real(theta, Vector(*axis), Vector(*vec))
        counts["triples"] = counts.get("triples", 0) + 1
        if nt and abs(math.sin(theta / 2)) > 1e-9:
            nontriv += 1
        msg = rotate.check(theta, tuple(axis), tuple(vec), (r.x, r.y, r.z))
        if msg and len(viol) < 10:
            viol.append({"cls": rotate.classify(axis), "msg": msg})
        return r

    if kind == "family":
        pat = case["pattern"]
        nzs = [i for i in range(3) if pat[i]]
        zs = [i for i in range(3) if not pat[i]]
        # a zero component is enumerated as +0.0 and as -0.0 (what -Vector(...) or "-0.000" give)
        for zsigns in itertools.product((0.0, -0.0), repeat=len(zs)):
            for mags in itertools.product(MAGS, repeat=len(nzs)):
                axis = [0.0, 0.0, 0.0]
                for i, z in zip(zs, zsigns):
                    axis[i] = z
                for i, m in zip(nzs, mags):
                    axis[i] = pat[i] * m
                for theta in ANGLES + (rng.uniform(-7, 7),):
                    for vec, nt in _vectors(axis, rng):
                        one(theta, axis, vec, nt)
            if any(math.copysign(1.0, z) < 0 for z in zsigns):
                counts["negative_zero_axes"] = counts.get("negative_zero_axes", 0) + len(MAGS) ** len(nzs)
        classes.append("pattern:" + rodrigues.pattern(pat))
        sample = {"kind": "family", "pattern": rodrigues.pattern(pat),
                  "axes": 5 ** len(nzs), "example_axis": axis}
    elif kind == "random":
        ex = None
        for _ in range(case["n"]):
            scale = 10 ** rng.uniform(-8, 3) if rng.random() < 0.3 else 1.0      # short axes (nearly parallel bonds) too
            axis = [rng.choice((1, -1)) * scale * 10 ** rng.uniform(-3, 3) for _ in range(3)]
            if rng.random() < 0.15:
                axis[rng.randrange(3)] = rng.choice((0.0, -0.0))
            theta = rng.uniform(-2 * math.pi, 2 * math.pi)
            vec = [rng.uniform(-5, 5) for _ in range(3)]
            one(theta, axis, vec, True)
            ex = {"theta": theta, "axis": axis, "vec": vec}
        # the same two objects used again and again, their components changed in place between the calls (what a
        # caller that scans an angle or walks along a chain does), with angles that repeat: every call answers for
        # the components the objects hold at that moment, and leaves them as they are
        ax_o, v_o = Vector(1.0, 2.0, 3.0), Vector(0.5, -1.0, 2.0)
        thetas = [rng.uniform(-math.pi, math.pi) for _ in range(3)]
        for _ in range(max(20, case["n"] // 50)):
            if rng.random() < 0.7:
                ax_o.x, ax_o.y, ax_o.z = (rng.choice((1, -1)) * 10 ** rng.uniform(-2, 2) for _ in range(3))
                if rng.random() < 0.2:
                    setattr(ax_o, rng.choice("xyz"), 0.0)
            if rng.random() < 0.7:
                v_o.x, v_o.y, v_o.z = (rng.uniform(-5, 5) for _ in range(3))
            th = rng.choice(thetas)
            a_, w_ = (ax_o.x, ax_o.y, ax_o.z), (v_o.x, v_o.y, v_o.z)
            if not any(a_):
                continue
            r = real(th, ax_o, v_o)
            counts["calls_on_reused_objects"] = counts.get("calls_on_reused_objects", 0) + 1
            msg = rotate.check(th, a_, w_, (r.x, r.y, r.z))
            if msg and len(viol) < 10:
                viol.append({"cls": "rotation-depends-on-earlier-calls", "msg": "objects used before, components changed in place: " + msg})
            if (ax_o.x, ax_o.y, ax_o.z) != a_ or (v_o.x, v_o.y, v_o.z) != w_:
                viol.append({"cls": "rotation-changes-its-arguments", "msg": "axis %r -> %r, vector %r -> %r" % (a_, (ax_o.x, ax_o.y, ax_o.z), w_, (v_o.x, v_o.y, v_o.z))})
                break
        classes.append("random")
        sample = {"kind": "random", "n": case["n"], "last": ex}
    else:
        sample = pipeline_case(rng, counts, classes, viol)
        nontriv += counts.get("rotate_contract", 0)
    c2, w2 = contracts.drain()
    for k, v in c2.items():
        counts[k] = counts.get(k, 0) + v
    viol.extend(w2)
    counts["triples_nontrivial"] = nontriv
    return {"violations": viol[:10], "nontrivial": nontriv > 0,
            "digest": repr(sorted(case.items(), key=str)), "counts": counts, "classes": classes,
            "sample": sample, "evals": counts.get("triples", 0) + counts.get("rotate_contract", 0)}


def pipeline_case(rng, counts, classes, viol):
    from .. import obs, pdbio, sources
    from ..monitors import rotate
    recs = sources.random_small_structure(rng)
    rot = rng.choice(pdbio.ROTATIONS)
    recs = pdbio.move(recs, rot, (rng.randrange(-20000, 20000), 0, rng.randrange(-5000, 5000)))
    opts = ["--protonate-all"] if rng.random() < 0.5 else []
    rotate.drain_patterns()
    r = obs.run_single(pdbio.dump(recs), opts, write_pka=False)
    counts["pipeline_runs"] = 1
    for p, n in rotate.drain_patterns().items():
        classes.append("pipeline-axis:" + p)
    d = sources.describe(recs)
    d.update({"kind": "pipeline", "opts": opts, "rot": rot, "exc": r.exc})
    return d


def verdict(tier, counts, classes, nontrivial, results):
    reasons = []
    pats = {c for c in classes if c.startswith("pattern:")}
    if len(pats) < 26:
        reasons.append("only %d of 26 zero/sign patterns enumerated" % len(pats))
    if counts.get("rotate_contract", 0) == 0:
        reasons.append("rotation contract never evaluated inside a pipeline run")
    if counts.get("triples", 0) < 1000:
        reasons.append("too few triples")
    return reasons
