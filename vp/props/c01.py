"""C01 - every ionizable group is predicted exactly once with the right model pKa."""
import random

RULE = ("each case builds a structure from real pieces (repository proteins, cut-outs, 2-6 chain chimeras) "
        "and applies record-level edits: TER present/absent, OXT / O'' present, absent or not the last "
        "atom, first residue without N, single-residue chains, numbering from negative values, beyond 999, "
        "non-monotone, insertion codes (twin and non-twin), blank chain ids, hetero groups and ions between "
        "and after chains, 2-3 identical MODEL copies; options: none, -c subsets, -i lists. Oracle: the "
        "census of sites derived from the input text alone (oracles/census.py) must equal, as a multiset "
        "keyed by the defining atom, the groups reported by every conformation and by AVR, with the "
        "tabulated model pKa, and every expected label must appear exactly once in the written summary "
        "and determinant table; bridged CYS are 99.99 and not titrated; hetero groups carry the charge / "
        "model pKa configured for their type (harness's own cfg parser). Non-trivial: >= 2 chain starts or "
        "a hetero group or non-default numbering, and >= 3 expected sites; distinct = distinct (input "
        "digest, options)."
        " 12 % of the built cases run with a parameter file that keeps penalised groups (every site listed); 30 % carry neutral extra options (-q, --log-level, -g/-w, -r, --protonate-all, -k, -d).")
RULE = RULE + ' Round 8: for inputs with several models the report of every conformation is written through propka.output.write_pka(conformation=...) and its two tables are held against the census of that model.'
RULE = RULE + ' Rounds 10-12: two cysteines with sulfurs at exactly 2.5 A on exactly representable coordinates (no bridge) and axis-aligned disulfides swept across grid cells (bridged); fragment records in any order with exactly the declared groups; residues cut back to their defining atom; sites completed at one position from other models belong to one residue.'
ASSUMPTIONS = ["inputs with alternate-location tags, exact 2.5 A S-S ties or two separate residues sharing one "
               "identity are not judged by the census (counted in census_not_judged)",
               "ligand group typing has no independent oracle: only charge / model pKa per reported type are "
               "checked against propka.cfg"]
TIMEOUT = {"quick": 1800, "thorough": 10800}


def generate(tier, seed):
    from .. import sources
    cases = []
    for name in sources.PROTEINS + sources.SMALL:
        for o in ("none", "-c", "-i"):
            cases.append({"kind": "file", "file": name, "optset": o, "seed": "%d:%s:%s" % (seed, name, o),
                          "cost": 80 if name in sources.PROTEINS else 4})
    n = 800 if tier == "quick" else 40000
    for k in range(n):
        cases.append({"kind": "built", "seed": "%d:b:%d" % (seed, k), "cost": 12})
    n = 60 if tier == "quick" else 2000
    for k in range(n):
        cases.append({"kind": "models", "seed": "%d:m:%d" % (seed, k), "cost": 25})
    # two cysteines with their sulfurs exactly 2.5 A apart on exactly representable coordinates: no bridge
    for k in range(12 if tier == "quick" else 300):
        cases.append({"kind": "cystie", "seed": "%d:ct:%d" % (seed, k), "cost": 3})
    # a disulfide of real length lying along a coordinate axis, at every position relative to the 2.51 A grid
    # of the bond search (and any other grid): bridged wherever it stands
    for k in range(60 if tier == "quick" else 1500):
        cases.append({"kind": "cysaxis", "k": k, "seed": "%d:ca:%d" % (seed, k), "cost": 3})
    # every fragment of the library (each ligand group type, DNA residues) next to real protein
    from .. import fragments
    reps = 2 if tier == "quick" else 30
    k = 0
    for rep in range(reps):
        for f in sorted(fragments.FRAGMENTS) + ["dna:DA", "dna:DC", "dna:DG", "dna:DT"]:
            cases.append({"kind": "fragment", "frag": f, "seed": "%d:f:%d" % (seed, k), "cost": 12})
            k += 1
    return cases


def setup(tier):
    from .. import contracts
    contracts.import_all_propka()


IONS = ("MG", "CA", "ZN", "NA", "CL", "MN", "K", "CD", "FE", "SR", "CU", "IOD", "HG", "BR", "CO", "NI", "FE2",
        "1P", "2P", "1N", "2N")


def edit_layout(recs, rng, desc):
    """Random record-level edits that change the terminus layout / labels / hetero content."""
    from .. import pdbio, sources
    edits = []
    rl = sources.residue_list(recs)
    # 1. drop the N of a chain-start residue
    if rng.random() < 0.15 and rl:
        starts = [i for i, r in enumerate(rl) if (i == 0 or r.ter_before) and r.key[0] == "ATOM  "]
        if starts:
            i = rng.choice(starts)
            rl[i].atoms = [a for a in rl[i].atoms if a.aname() != "N"]
            edits.append("first-residue-without-N")
    # 1b. ionizable residues cut back to their defining atom (a ring without its nitrogens, a carboxylate without
    # its oxygens, a guanidinium without its nitrogens): the site is there as long as that atom is
    if rng.random() < 0.15 and rl:
        bare = {"HIS": ("ND1", "CD2", "CE1", "NE2"), "ASP": ("OD1", "OD2"), "GLU": ("OE1", "OE2"), "ARG": ("NE", "NH1", "NH2")}
        cand = [i for i, r in enumerate(rl) if r.key[0] == "ATOM  " and r.key[4] in bare]
        for i in rng.sample(cand, min(len(cand), rng.choice((1, 2, 3)))):
            rl[i].atoms = [a for a in rl[i].atoms if a.aname() not in bare[rl[i].key[4]]]
        if cand:
            edits.append("residues-cut-back-to-the-defining-atom")
    # 2. single-residue chain: TER after the first residue of a chain
    if rng.random() < 0.15 and len(rl) > 3:
        i = rng.randrange(1, len(rl))
        rl[i].ter_before = True
        if i + 1 < len(rl):
            rl[i + 1].ter_before = True
            edits.append("single-residue-chain")
    # 3. numbering
    u = rng.random()
    if u < 0.15:
        sh = -rng.randrange(30, 400)
        edits.append("negative-numbers")
    elif u < 0.3:
        sh = rng.randrange(900, 5000)
        edits.append("numbers-beyond-999")
    else:
        sh = 0
    if sh:
        for r in rl:
            for k, a in enumerate(r.atoms):
                a = a.copy()
                a.resnum = max(-999, min(9999, a.resnum + sh))
                r.atoms[k] = a
    # 4. rename OXT to O''
    if rng.random() < 0.2:
        for r in rl:
            for k, a in enumerate(r.atoms):
                if a.aname() == "OXT":
                    a = a.copy()
                    a.name = " O''"
                    r.atoms[k] = a
                    if "O''" not in edits:
                        edits.append("O''")
    out = sources.emit(rl)
    # 5. insertion codes
    if rng.random() < 0.25:
        from .c06 import make_twins
        out, ntw = make_twins(out, rng)
        if ntw:
            edits.append("icode-twins")
    elif rng.random() < 0.2:
        # non-twin insertion code: a residue gets a code, nobody shares its number
        rl2 = sources.residue_list(out)
        if rl2:
            r = rng.choice(rl2)
            nums = {(x.key[1], x.key[2]) for x in rl2}
            for k, a in enumerate(r.atoms):
                a = a.copy()
                a.icode = "B"
                r.atoms[k] = a
            out = sources.emit(rl2)
            edits.append("icode-non-twin")
    # 6. ions (HETATM) anywhere
    if rng.random() < 0.35:
        atoms = pdbio.atoms(out)
        for k in range(rng.choice((1, 2, 4))):
            a = rng.choice(atoms)
            ion = rng.choice(IONS)
            nm = pdbio.name4(ion if not ion[0].isdigit() else "P", ion.capitalize() if len(ion) == 2 and not ion[0].isdigit() else ion[0])
            r = pdbio.new_atom("HETATM", "%5d" % (8000 + k), ("%-4s" % ion)[:4] if len(ion) >= 2 and not ion[0].isdigit() else " %-3s" % ion,
                               "%3s" % ion, rng.choice((a.chain, "I")), 700 + k,
                               a.x + rng.choice((-1, 1)) * rng.randrange(3000, 8000), a.y + rng.randrange(-3000, 3000),
                               a.z + rng.randrange(-3000, 3000))
            out.insert(rng.choice((len(out), rng.randrange(0, len(out) + 1))), r)
        edits.append("ions")
    # 7. identical models
    if rng.random() < 0.12:
        k = rng.choice((2, 3))
        body = [r for r in out]
        out = []
        for m in range(1, k + 1):
            out.append(pdbio.raw("MODEL     %4d" % m))
            out.extend(body)
            out.append(pdbio.raw("ENDMDL"))
        edits.append("identical-models")
    desc["edits"] = edits
    return out


def pick_options(rng, recs, optset=None):
    from .. import util
    optset = optset or rng.choice(("none", "none", "none", "-c", "-i", "-i"))
    opts, chains, tlist = [], None, None
    if optset == "-c":
        ids = sorted({r.chain for r in recs if r.raw is None})
        k = rng.randint(1, max(1, len(ids)))
        chains = sorted(rng.sample(ids, k))
        for c in chains:
            opts += ["-c", c]
    elif optset == "-i":
        res = []
        seen = set()
        for r in recs:
            if r.raw is None and r.tag == "ATOM  " and r.chain != " ":
                k = (r.chain, r.resnum, r.icode)
                if k not in seen:
                    seen.add(k)
                    res.append(k)
        if res:
            n = rng.choice((1, 3, len(res) // 3 or 1, len(res)))
            tlist = rng.sample(res, min(len(res), n))
            extra = [("Q", 999, " ")] if rng.random() < 0.3 else []
            opts += ["-i", ",".join(util.res_arg(r) for r in tlist + extra)]
        else:
            optset = "none"
    return opts, optset, chains, tlist


def run_case(case, tier):
    from .. import obs, pdbio, sources, util
    from ..monitors import census_mon
    rng = random.Random(case["seed"])
    viol, counts, classes = [], {}, []
    desc = {"kind": case["kind"]}
    if case["kind"] == "file":
        recs = sources.repo_recs(case["file"])
        desc["file"] = case["file"]
        optset = case["optset"]
    elif case["kind"] == "cysaxis":
        from .c11 import two_cys_at_exactly_2p5
        ax = case["k"] % 3
        d_ = rng.choice((2030, 2040, 2100, 2250, 2400, 2490)) * rng.choice((1, -1))
        vec = [0, 0, 0]
        vec[ax] = d_
        # sulfur 1 in steps of 0.04 A across a cell of any width between 2.0 and 2.6 A, positive and negative
        target = [rng.randrange(-30000, 30000) for _ in range(3)]
        target[ax] = rng.choice((-1, 1)) * (rng.randrange(0, 20) * 2510 + (case["k"] // 3) * 40 % 2600)
        recs = two_cys_at_exactly_2p5(rng, vec=vec, target=target)
        optset = "none"
        classes.append("axis-aligned-disulfide")
    elif case["kind"] == "cystie":
        from .c11 import two_cys_at_exactly_2p5
        recs = two_cys_at_exactly_2p5(rng)
        optset = "none"
        classes.append("sulfurs-at-exactly-2.5A")
    elif case["kind"] == "models":
        # several MODELs with point mutants / missing atoms, residues or chains (no alt-loc tags)
        from .. import multiconf
        for _ in range(10):
            recs, d = multiconf.build(rng)
            if d["mode"] == "models":
                break
        desc.update({"multiconf": d.get("events")})
        optset = "none"
    elif case["kind"] == "fragment":
        from .. import fragments
        recs = sources.random_small_structure(rng, 60, 500)
        recs = [r for r in recs if r.raw is not None or r.alt in (" ", "A")]
        for i, r in enumerate(recs):
            if r.raw is None and r.alt != " ":
                r = r.copy()
                r.alt = " "
                recs[i] = r
        shuffled = rng.random() < 0.5
        frag, expect, dist = fragments.place_near(recs, case["frag"], rng, dist_A=rng.uniform(3.0, 12.0), min_clear_A=3.0, shuffle=shuffled)
        if shuffled:
            classes.append("fragment-records-in-another-order")
        optset = rng.choice(("none", "none", "-i"))
        if frag is not None:
            recs = recs + ([pdbio.raw("TER")] if case["frag"].startswith("dna:") else []) + frag
            desc["frag"] = case["frag"]
            desc["declared"] = expect
    else:
        u = rng.random()
        if u < 0.6:
            recs, d = sources.chimera(rng)
            desc.update(d)
        else:
            recs = sources.random_small_structure(rng, 60, 800)
        # alternate locations make the input multi-conformation (C08's subject): keep one
        recs = [r for r in recs if r.raw is not None or r.alt in (" ", "A")]
        for i, r in enumerate(recs):
            if r.raw is None and r.alt != " ":
                r = r.copy()
                r.alt = " "
                recs[i] = r
        if case["kind"] not in ("fragment", "models", "cystie", "cysaxis"):
            recs = edit_layout(recs, rng, desc)
            optset = None
    opts, optset, chains, tlist = pick_options(rng, recs, optset)
    opts = opts + util.neutral_options(rng, classes=classes)
    keep_pen = case["kind"] != "file" and rng.random() < 0.12
    if keep_pen:
        # a parameter file that keeps penalised groups in the report (flagged): then every site is listed
        opts = opts + ["-p", util.write_cfg({"remove_penalised_group": 0})]
        classes.append("penalised-groups-kept")
    text = pdbio.dump(recs)
    run = obs.run_single(text, opts, keep_mol=(case["kind"] == "models"))
    counts["pipeline_runs"] = 1
    desc.update({"optset": optset, "atoms": len(pdbio.atoms(recs)), "exc": run.exc})
    if run.exc:
        classes.append("raised:" + run.exc_type)
        cen = None
    else:
        before = len(viol)
        cen = census_mon.check(run, text, viol, counts, classes, chains=chains,
                               titrate_only=set(tlist) if tlist is not None else None,
                               allow_topup_extras=(case["kind"] == "models"), remove_penalised=not keep_pen)
    if run.mol is not None and run.rec and len(run.rec["names"]) > 1 and cen is not None:
        census_mon.check_conformation_reports(run, cen, viol, counts, classes, remove_penalised=not keep_pen, text=text, chains=chains)
    run.mol = None
    if desc.get("declared") and run.rec:
        conf = run.rec["confs"][run.rec["names"][0]]
        got = {g["aid"][5]: g["type"] for g in conf["groups"] if g["aid"][2] == 900 and g["aid"][1] == "L"}
        for a, t in desc["declared"].items():
            counts["declared_types_checked"] = counts.get("declared_types_checked", 0) + 1
            if got.get(a) != t:
                viol.append({"cls": "fragment-type-not-reached", "msg": "fragment %s: atom %s typed %r, declared %s" % (desc["frag"], a, got.get(a), t)})
        # ... and nothing else: a group on an atom for which the library declares none (an ester oxygen pair read as a
        # carboxylate, a second group on a ring) is a group that is not in the structure
        if desc["frag"] in fragments.FRAGMENTS and desc["frag"] != "sulfate":
            for a, t in got.items():
                if a not in desc["declared"]:
                    viol.append({"cls": "fragment-undeclared-group", "msg": "fragment %s: atom %s carries a group of type %s, the library declares none there" % (desc["frag"], a, t)})
    nsites = nstarts = 0
    if cen:
        first = cen["models"].get(min(cen["models"])) if cen["models"] else []
        nsites = len(first)
        nstarts = sum(1 for s in first if s["kind"] == "N+")
        for s in first:
            classes.append("site:" + s["rtype"])
    for e in desc.get("edits", []):
        classes.append("edit:" + e)
    classes.append("optset:" + optset)
    hetero = any(r.raw is None and r.tag == "HETATM" for r in recs)
    nontrivial = (nstarts >= 2 or hetero or bool(desc.get("edits"))) and nsites >= 3 and not run.exc
    desc["expected_sites"] = nsites
    import hashlib
    return util.finish(case, viol, counts, classes, nontrivial, desc, inconclusive=("raised " + run.exc) if run.exc else None,
                       digest=hashlib.sha1((text + repr(opts)).encode()).hexdigest()[:16])


def verdict(tier, counts, classes, nontrivial, results):
    reasons = []
    if counts.get("census_sites_matched", 0) == 0:
        reasons.append("no site was matched against the census")
    if counts.get("summaries_checked", 0) == 0:
        reasons.append("no summary checked")
    if nontrivial < 10:
        reasons.append("fewer than 10 non-trivial cases")
    for k in ("ASP", "GLU", "HIS", "CYS", "TYR", "LYS", "ARG", "N+", "C-"):
        if "site:" + k not in classes:
            reasons.append("site kind %s never seen" % k)
    from .. import fragments
    missing = [t for t in fragments.ALL_LIGAND_TYPES if "ligand:" + t not in classes]
    if missing:
        reasons.append("ligand group types never produced: %s" % ",".join(missing))
    if "dna-custom-pka" not in classes:
        reasons.append("no DNA residue with a custom model pKa seen")
    if not any(c.startswith("ion:") for c in classes):
        reasons.append("no ion seen")
    return reasons
