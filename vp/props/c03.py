"""C03 - results are a pure function of input content and options."""
import json
import os
import random
import subprocess
import sys

RULE = ("history cases execute 5-12 calls in ONE worker process: propka.run.single with a path or a text "
        "stream, or propka.run.main with several files, with options drawn from {none, -d, -i, -c, "
        "--protonate-all, -k, -g/-w, -p with varying coupling thresholds and numeric model parameters}, the working directory changed and Group/Atom junk allocated "
        "and freed between calls, inputs including unknown elements (which mutate the shared Protonate "
        "singleton), multi-conformation files and coupled systems; every call's full record (all "
        "groups, determinants, profiles, pI, .pka text minus the date line) must be bit-identical to "
        "the record of the same (content, options) executed alone in a fresh interpreter started with a "
        "different PYTHONHASHSEED and PYTHONMALLOC setting, path vs stream. Layout cases re-run one "
        "input under 8-16 pseudo address layouts: Group.__hash__ / Iterative.__hash__ are replaced by "
        "stable 16-byte-aligned pseudo-addresses (every layout of distinct aligned addresses is a legal "
        "allocation pattern) and the records must not change. Non-trivial: the history repeats a "
        "(content, options) pair with a different call in between and contains a coupled system; a "
        "layout case is non-trivial when a set of >= 5 groups is iterated; distinct = distinct case "
        "descriptors."
        " Inputs include MODEL files in which several ionizable residues exist in later models only; main-mode calls also carry -i and -p.")
RULE = RULE + " Round 8: parameter files of a history are one file per content, one path rewritten between the calls, or a bare name resolved in the call's working directory."
RULE = RULE + ' Round 13: parameter files also replace rows of the backbone hydrogen-bond tables.'
RULE = RULE + ' Rounds 10-12: the shipped parameter file under its bare name; nucleotide inputs followed by ligands with groups of the same types, half of their calls through main with several files; series of ligand complexes on one protein and site.'
ASSUMPTIONS = ["pseudo-addresses are 16-aligned like CPython object addresses; unaligned values would create set "
               "orders that real addresses cannot produce"]
TIMEOUT = {"quick": 3000, "thorough": 14400}

OPTSETS = [[], ["-d"], ["--protonate-all"], ["-g", "0.0", "14.0", "0.5", "-w", "2.0", "10.0", "2.0"], ["-q"],
           ["PARAMS"], ["TITRATE"], ["CHAIN"], ["-k"]]


def generate(tier, seed):
    cases = []
    n = 36 if tier == "quick" else 3000
    for k in range(n):
        cases.append({"kind": "history", "seed": "%d:h:%d" % (seed, k), "cost": 200})
    n = 64 if tier == "quick" else 3000
    for k in range(n):
        cases.append({"kind": "layouts", "seed": "%d:l:%d" % (seed, k), "cost": 120})
    return cases


def setup(tier):
    from .. import contracts
    contracts.import_all_propka()


# ------------------------------------------------------------------ inputs
def make_input(rng, kind=None, base=None, anchor=None):
    """(text, description) of one input structure. base / anchor: one protein for a whole series of ligand
    complexes - the ligand, named LIG, sits at one site, so that atom numbers, names and positions of
    chemically different ligands coincide from one input to the next."""
    from .. import fragments, multiconf, pdbio, sources
    if base is not None:
        fr = rng.choice(sorted(fragments.FRAGMENTS))
        frag, expect, d = fragments.place_near(base, fr, rng, anchor=anchor, dist_A=rng.choice((3.0, 3.5, 4.5)), min_clear_A=2.6)
        recs = list(base)
        if frag:
            for a in frag:
                a.resn = "LIG"
            recs = recs + frag
        return pdbio.dump(recs), {"input": "ligand-series", "fragment": fr, "atoms": len(pdbio.atoms(recs))}
    kind = kind or rng.choice(("cutout", "cluster", "cluster", "chimera", "small-file", "multiconf", "unknown-element",
                               "ligand", "polyamine", "protein", "free-ligand", "late-groups", "acid-chain"))
    if kind == "acid-chain":
        # 3-5 carboxylates in a row, neighbouring oxygens 2.6-3.0 A apart: a non-covalently coupled system
        # whose middle members have two partners and whose ends have one (far from a chain-start residue)
        import math
        resn, o1, o2 = rng.choice((("ASP", "OD1", "OD2"), ("GLU", "OE1", "OE2")))
        res = sources.whole_residue(resn, o1)
        a1 = [a for a in res if a.aname() == o1][0]
        a2 = [a for a in res if a.aname() == o2][0]
        ax = [a1.x - a2.x, a1.y - a2.y, a1.z - a2.z]
        ln = math.sqrt(sum(c * c for c in ax))
        u = [c / ln for c in ax]
        out = []
        for a in sources.whole_residue("VAL", "CB"):
            a = a.copy()
            a.chain, a.resnum, a.icode, a.x = "A", 1, " ", a.x + 40000 + (a1.x - a.x)
            out.append(a)
        off = 0.0
        for k in range(rng.choice((3, 3, 4, 5))):
            for a in res:
                a = a.copy()
                a.chain, a.resnum, a.icode = "A", 10 * (k + 1), " "
                a.x, a.y, a.z = a.x + int(round(off * u[0])), a.y + int(round(off * u[1])), a.z + int(round(off * u[2]))
                out.append(a)
            off += ln + rng.choice((2600, 2800, 3000))
        return pdbio.dump(out), {"input": "acid-chain", "residue": resn}
    if kind == "late-groups":
        # two or three MODELs; several ionizable residues are cut back to ALA in the first one, so their
        # groups exist in later conformations only (whatever collects them must do so in a fixed order)
        base = [r for r in sources.random_small_structure(rng, 80, 500) if r.raw is not None or r.alt in (" ", "A")]
        base = [multiconf._blank_alt(r) if r.raw is None else r for r in base]
        tit = sorted({(r.chain, r.resnum, r.icode) for r in base if r.raw is None and r.tag == "ATOM  "
                      and r.resn in ("ASP", "GLU", "HIS", "TYR", "LYS", "ARG", "CYS")})
        cut = set(rng.sample(tit, min(len(tit), rng.choice((2, 3, 4, 6)))))
        out = []
        for m in range(1, rng.choice((2, 3)) + 1):
            out.append(pdbio.raw("MODEL     %4d" % m))
            for r in base:
                if r.raw is not None:
                    continue
                if m == 1 and (r.chain, r.resnum, r.icode) in cut:
                    if r.aname() not in ("N", "CA", "C", "O", "CB"):
                        continue
                    r = r.copy()
                    r.resn = "ALA"
                out.append(r)
            out.append(pdbio.raw("ENDMDL"))
        return pdbio.dump(out), {"input": "late-groups", "cut": len(cut)}
    if kind == "free-ligand":
        # a ligand on its own (symmetric molecules have groups with exactly equal pKa)
        fr = rng.choice(("pentamine", "hexamine", "triamine", "ethylenediamine", "methylphosphate", "hexamine"))
        rot = fragments.random_rotation(rng) if rng.random() < 0.5 else None
        recs, _ = fragments.records(fr, rot=rot, origin=(rng.randrange(-50000, 50000), rng.randrange(-50000, 50000), 12345))
        return pdbio.dump(recs), {"input": "free-ligand", "fragment": fr}
    if kind == "small-file":
        name = rng.choice(sources.SMALL + sources.MULTICONF)
        return sources.repo_text(name), {"input": name}
    if kind == "protein":
        name = rng.choice(sources.PROTEINS)
        return sources.repo_text(name), {"input": name}
    if kind == "cluster":
        from .c15 import cluster_cutout
        recs = cluster_cutout(rng)
    elif kind == "chimera":
        recs, _ = sources.chimera(rng)
    elif kind == "multiconf":
        recs, _ = multiconf.build(rng)
    else:
        recs = sources.random_small_structure(rng, 80, 600)
    if kind == "unknown-element":
        # an element that the valence table lacks: the first run adds it to the shared singleton
        a = rng.choice(pdbio.atoms(recs))
        el = rng.choice(("XX", "QQ", "D", "UN"))
        recs = recs + [pdbio.new_atom("HETATM", " 9990", "%-4s" % el if len(el) == 2 else " %-3s" % el, "UNL", "U", 950,
                                      a.x + 4000, a.y + 3000, a.z)]
    if kind == "dna":
        # a nucleotide (its groups take model pKa values of their own from the parameter file)
        frag, expect, d = fragments.place_near(recs, rng.choice(("dna:DA", "dna:DC", "dna:DG", "dna:DT")), rng, dist_A=rng.uniform(3.5, 8.0))
        if frag:
            recs = recs + [pdbio.raw("TER")] + frag
        return pdbio.dump(recs), {"input": kind, "atoms": len(pdbio.atoms(recs))}
    if kind in ("ligand", "polyamine", "op-ligand"):
        fr = rng.choice(("pentamine", "hexamine", "triamine")) if kind == "polyamine" else rng.choice(sorted(fragments.FRAGMENTS))
        if kind == "op-ligand":
            # ligands whose groups share their type with nucleotide groups (phosphate oxygens, aromatic nitrogens)
            fr = rng.choice(("methylphosphate", "pyridine", "imidazole"))
        frag, expect, d = fragments.place_near(recs, fr, rng, dist_A=rng.uniform(3.0, 9.0))
        if frag:
            if rng.random() < 0.6:
                # docking tools call every ligand LIG / UNL: chemically different ligands of
                # successive inputs then share residue and atom names
                for a in frag:
                    a.resn = "LIG"
            recs = recs + frag
    return pdbio.dump(recs), {"input": kind, "atoms": len(pdbio.atoms(recs))}


def concretise(opts, text, rng):
    """Replace the symbolic option sets by concrete arguments for this input."""
    from .. import pdbio, util
    if opts == ["PARAMS"]:
        ov = {"remove_penalised_group": rng.choice((0, 1)), "shared_determinants": rng.choice((0, 1)),
              "min_interaction_energy": rng.choice((0.5, 5.0, 0.1)),
              "max_intrinsic_pka_diff": rng.choice((2.0, 6.0, 0.5)),
              "min_swap_pka_shift": rng.choice((1.0, 0.2))}
        # numeric model parameters too: successive calls of one process with different radii,
        # counts and scalings (anything remembered from an earlier parameter set would show)
        for k, vals in (("desolv_cutoff", (20.0, 16.0, 18.5)), ("buried_cutoff", (15.0, 12.0)),
                        ("coulomb_cutoff2", (10.0, 8.0)), ("coulomb_cutoff1", (4.0, 3.5)),
                        ("Nmin", (280, 240)), ("Nmax", (560, 600)), ("sidechain_interaction", (0.85, 0.7)),
                        ("common_charge_centre", (0, 1)), ("desolvationAllowance", (0.0, 0.1))):
            if rng.random() < 0.35:
                ov[k] = rng.choice(vals)
        # rows of the backbone hydrogen-bond tables: a look-up remembered per pair of group types
        # from an earlier parameter set would show
        for k, vals in (("ROW:backbone_NH_hydrogen_bond COO", ("-1.20 2.00 3.50", "-0.40 2.00 3.00")),
                        ("ROW:backbone_NH_hydrogen_bond CYS", ("-1.50 3.00 4.50",)),
                        ("ROW:backbone_NH_hydrogen_bond TYR", ("-0.30 2.20 3.60",)),
                        ("ROW:backbone_CO_hydrogen_bond HIS", ("1.40 2.00 3.50", "0.30 2.00 3.00"))):
            if rng.random() < 0.3:
                ov[k] = rng.choice(vals)
        return ["-p", "CFG:" + json.dumps(ov, sort_keys=True)]
    if opts == ["TITRATE"]:
        res = [r for r in util.titratable_residues(pdbio.parse(text)) if r[0] != " "]
        if not res:
            return []
        return ["-i", ",".join(util.res_arg(r) for r in rng.sample(res, min(len(res), 3)))]
    if opts == ["CHAIN"]:
        ids = sorted({r.chain for r in pdbio.parse(text) if r.raw is None})
        return ["-c", rng.choice(ids)] if ids else []
    return list(opts)


def realise(opts, reuse=None):
    """'CFG:{...}' placeholders -> parameter files of this process. reuse='abs' rewrites one file
    of this process every time (a parameter scan), reuse='rel' writes 'scan.cfg' into the current
    directory and passes the bare name."""
    from .. import util
    out = []
    for o in opts:
        if isinstance(o, str) and o.startswith("CFG:"):
            if reuse == "abs":
                out.append(util.write_cfg(json.loads(o[4:]), name="scan.cfg"))
            elif reuse == "rel":
                path = util.write_cfg(json.loads(o[4:]), name="scan-rel.cfg")
                os.replace(path, os.path.join(os.getcwd(), "scan.cfg"))
                out.append("scan.cfg")
            else:
                out.append(util.write_cfg(json.loads(o[4:])))
        else:
            out.append(o)
    return out


def canonical(run):
    """Everything the statement calls a result: every reported number and the .pka text minus
    the date line. Log warnings are not results (an unknown element is announced only the first
    time it is met in a process) and are left out."""
    from .. import obs
    rec = run.rec
    if rec is not None:
        rec = {k: v for k, v in rec.items() if k != "warnings"}
        # the internal lists of coupled partners are membership lists (never printed in order):
        # compare them as sets
        for conf in rec["confs"].values():
            for g in conf["groups"]:
                g["cov"] = sorted(map(list, g["cov"]))
                g["ncov"] = sorted(map(list, g["ncov"]))
    return {"exc": run.exc_type, "rec": rec, "text": obs.strip_date(run.text) if run.text is not None else None}


def dumps(x):
    return json.dumps(x, sort_keys=True)


def first_difference(a, b, path=""):
    if type(a) != type(b):
        return "%s: %r vs %r" % (path, a, b)
    if isinstance(a, dict):
        for k in sorted(set(a) | set(b)):
            if k not in a or k not in b:
                return "%s/%s only on one side" % (path, k)
            d = first_difference(a[k], b[k], path + "/" + str(k))
            if d:
                return d
        return None
    if isinstance(a, list):
        if len(a) != len(b):
            return "%s: lengths %d vs %d" % (path, len(a), len(b))
        for i, (x, y) in enumerate(zip(a, b)):
            d = first_difference(x, y, "%s[%d]" % (path, i))
            if d:
                return d
        return None
    if a != b:
        return "%s: %r vs %r" % (path, str(a)[:80], str(b)[:80])
    return None


def fresh_reference(text, opts, as_path, rng):
    """Run (content, options) alone in a fresh interpreter with another hash seed / allocator."""
    from .. import env, util
    spec = {"text": text, "opts": opts_for_ref(opts), "as_path": as_path, "name": "case.pdb"}
    path = os.path.join(util.worker_tmp(), "ref-%d.json" % rng.randrange(10 ** 9))
    with open(path, "w") as fh:
        json.dump(spec, fh)
    extra = {}
    if rng.random() < 0.5:
        extra["PYTHONMALLOC"] = "malloc"
    e = env.worker_env(hashseed=str(rng.randrange(1, 10 ** 6)), extra=extra)
    p = subprocess.run([env.PY, "-B", "-m", "vp.c03ref", path], cwd=env.VERIF, env=e, capture_output=True, text=True, timeout=900)
    os.unlink(path)
    if p.returncode != 0:
        raise RuntimeError("reference interpreter failed: " + p.stderr[-500:])
    return json.loads(p.stdout.rsplit("@@C03REF@@", 1)[-1])


def opts_for_ref(opts):
    """Parameter files are written by the reference process itself (same content)."""
    out = []
    it = iter(opts)
    for o in it:
        out.append(o)
    return out


def junk(rng):
    """Allocate and free objects of the classes whose addresses matter."""
    from propka.atom import Atom
    from propka.group import Group
    keep = []
    for _ in range(rng.randrange(50, 2000)):
        a = Atom()
        a.name = "X"
        keep.append(Group(a))
        if rng.random() < 0.3 and keep:
            keep.pop(rng.randrange(len(keep)))
    return len(keep)


def run_history(case, rng, viol, counts, classes):
    import logging
    import propka.run
    from .. import obs, util
    ninputs = rng.choice((2, 3, 3, 4))
    u_ = rng.random()
    if u_ < 0.12:
        inputs = [make_input(rng, "ligand") for _ in range(ninputs)]      # a series of ligand complexes
    elif u_ < 0.25:
        # ... of one protein, the ligands docked at one site
        from .. import sources
        from .c16 import titratable_anchor
        base_ = [r for r in sources.random_small_structure(rng, 80, 500) if r.raw is not None or r.tag == "ATOM  "]
        anchor_ = titratable_anchor(base_, rng)
        inputs = [make_input(rng, base=base_, anchor=anchor_) for _ in range(max(3, ninputs))]
        classes.append("ligand-series-on-one-protein")
    elif u_ < 0.4:
        classes.append("nucleotides-and-ligands-of-the-same-group-types")
        # nucleic acids and ligands with groups of the same types, in one process / one invocation
        inputs = [make_input(rng, rng.choice(("dna", "op-ligand"))) for _ in range(ninputs)]
        inputs[0] = make_input(rng, "dna")
        inputs[-1] = make_input(rng, "op-ligand")
    else:
        inputs = [make_input(rng) for _ in range(ninputs)]
    # the pool of (input, options) pairs; some are used twice
    pool = []
    for i, (text, d) in enumerate(inputs):
        for _ in range(rng.choice((1, 2))):
            o = concretise(rng.choice(OPTSETS), text, rng)
            if o == ["-k"] and d.get("input") in ("multiconf",):
                o = []
            pool.append((i, o))
        if rng.random() < 0.5:
            # the same input under two different parameter files and under the default one
            pool.append((i, concretise(["PARAMS"], text, rng)))
            pool.append((i, concretise(["PARAMS"], text, rng)))
            pool.append((i, []))
            # the shipped parameter file under its bare name: found in the package whatever the working
            # directory holds (two of the four working directories hold another file of that name)
            pool.append((i, ["-p", "propka.cfg"]))
    calls = [rng.choice(pool) for _ in range(rng.randrange(5, 13))]
    calls[rng.randrange(len(calls))] = calls[0]         # make sure something repeats
    refs = {}
    repeated_apart = False
    seen_at = {}
    coupled = False
    home = os.getcwd()
    # parameter files: one per content, or one path rewritten between the calls, or one bare name
    # that resolves in whatever the working directory is
    reuse = rng.choice((None, None, "abs", "rel"))
    if reuse:
        classes.append("parameter-file-" + reuse)
    desc = {"kind": "history", "inputs": [d for _, d in inputs], "calls": [], "cfg_reuse": reuse}
    try:
        for n, (i, o) in enumerate(calls):
            text = inputs[i][0]
            key = (i, dumps(o))
            mode = rng.choice(("stream", "path", "stream", "main", "zip"))
            if "nucleotides-and-ligands-of-the-same-group-types" in classes and rng.random() < 0.5:
                mode = "main"            # several files in one invocation share one parameter object
            if mode == "main" and "-c" in o:      # a chain the other files lack would end the invocation early
                mode = "stream"
            # change the working directory and the heap between calls
            wd = os.path.join(util.worker_tmp(), "wd%d" % rng.randrange(4))
            os.makedirs(wd, exist_ok=True)
            if wd.endswith(("wd1", "wd3")) and not os.path.exists(os.path.join(wd, "propka.cfg")):
                # a hostile working directory: left-over files with the names the package uses
                decoy = util.read_cfg_lines()
                decoy = [l.replace("model_pkas ASP  3.80", "model_pkas ASP  4.90").replace("Nmin	      			    280", "Nmin 100")
                         for l in decoy]
                with open(os.path.join(wd, "propka.cfg"), "w") as fh:
                    fh.write("\n".join(decoy) + "\nmodel_pkas GLU 5.50\n")
                with open(os.path.join(wd, "protein_bonds.json"), "w") as fh:
                    fh.write("{}")
                with open(os.path.join(wd, "case.pdb"), "w") as fh:
                    fh.write("ATOM      1  N   LYS A   1       0.000   0.000   0.000  1.00  0.00\n")
            os.chdir(wd)
            junk(rng)
            ropts = realise(o, reuse)
            if mode == "main":
                got = run_main(text, ropts, rng, inputs, wd)
            elif mode == "zip":
                # a path that points into a zip archive (supported by open_file_for_reading)
                import zipfile
                zpath = os.path.join(wd, "bundle%d.zip" % rng.randrange(10 ** 6))
                with zipfile.ZipFile(zpath, "w") as zf:
                    zf.writestr("inner/case.pdb", text)
                import propka.run
                with obs.capture_logs():
                    exc_t = None
                    mol = None
                    for f in os.listdir(wd):
                        if f.endswith(".pka"):
                            os.unlink(os.path.join(wd, f))
                    try:
                        mol = propka.run.single(os.path.join(zpath, "inner", "case.pdb"), tuple(ropts))
                    except BaseException as e:
                        if isinstance(e, (KeyboardInterrupt, MemoryError)):
                            raise
                        exc_t = type(e).__name__
                run = obs.Run()
                run.exc_type, run.exc, run.logs = exc_t, exc_t, []
                run.rec = obs.record_of(mol, profiles=True) if mol is not None else None
                run.text = None
                cands = [f for f in os.listdir(wd) if f.startswith("case") and f.endswith(".pka")]
                if cands:
                    with open(os.path.join(wd, sorted(cands)[0])) as fh:
                        run.text = fh.read()
                os.unlink(zpath)
                got = canonical(run)
            else:
                if reuse == "rel":
                    # the bare name resolves in the directory the call is made from
                    for f in os.listdir(wd):
                        if f.endswith(".pka"):
                            os.unlink(os.path.join(wd, f))
                run = obs.run_single(text, ropts, as_path=(mode == "path"), profiles=True, workdir=wd if reuse == "rel" else None)
                got = canonical(run)
                if run.rec and any(g["ncov"] or g["cov"] for g in run.rec["confs"][run.rec["names"][0]]["groups"]):
                    coupled = True
            counts["calls"] = counts.get("calls", 0) + 1
            desc["calls"].append({"input": i, "opts": [x if not str(x).endswith(".cfg") else "<cfg>" for x in o], "mode": mode})
            if key in seen_at and seen_at[key] < n - 1:
                repeated_apart = True
            seen_at.setdefault(key, n)
            if key not in refs:
                refs[key] = fresh_reference(text, ref_opts(o), rng.random() < 0.5, rng)
                counts["fresh_references"] = counts.get("fresh_references", 0) + 1
            ref = refs[key]
            counts["comparisons"] = counts.get("comparisons", 0) + 1
            if mode == "main":
                if got["text"] != ref["text"]:
                    viol.append({"cls": "history-dependent:main", "msg": "call %d (main with several files) differs from the fresh-interpreter run: %s" % (
                        n, first_text_diff(got["text"], ref["text"]))})
            else:
                d = first_difference(json.loads(dumps(got)), ref)
                if d:
                    viol.append({"cls": "history-dependent", "msg": "call %d %r of the history differs from the same call alone in a fresh interpreter at %s" % (
                        n, desc["calls"][-1], d)})
            if len(viol) >= 3:
                break
    finally:
        os.chdir(home)
        root = logging.getLogger("")
        for h in list(root.handlers):
            root.removeHandler(h)
    classes.append("history-length:%d" % min(len(calls), 12))
    for c in desc["calls"]:
        classes.append("mode:" + c["mode"])
    return desc, repeated_apart and coupled


def ref_opts(o):
    """Options for the reference process: parameter overrides are passed symbolically."""
    return list(o)


def first_text_diff(a, b):
    if a is None or b is None:
        return "%r vs %r" % (a is None, b is None)
    for x, y in zip(a.split("\n"), b.split("\n")):
        if x != y:
            return "%r vs %r" % (x, y)
    return "lengths %d vs %d" % (len(a), len(b))


def run_main(text, opts, rng, inputs, wd):
    """propka.run.main on this file plus one or two other files in the same invocation."""
    import propka.run
    from .. import obs
    names = []
    with open(os.path.join(wd, "case.pdb"), "w") as fh:
        fh.write(text)
    others = []
    for k in range(rng.choice((1, 2))):
        t, _ = rng.choice(inputs)
        nm = "other%d.pdb" % k
        with open(os.path.join(wd, nm), "w") as fh:
            fh.write(t)
        others.append(nm)
    files = others + ["case.pdb"]
    rng.shuffle(files)
    args = list(opts) + ["-q"] + sum((["-f", f] for f in files[:-1]), []) + [files[-1]]
    for f in os.listdir(wd):
        if f.endswith(".pka"):
            os.unlink(os.path.join(wd, f))
    exc = None
    with obs.capture_logs():
        try:
            propka.run.main([args])
        except BaseException as e:
            if isinstance(e, (KeyboardInterrupt, MemoryError)):
                raise
            exc = type(e).__name__
    text_out = None
    cands = [f for f in os.listdir(wd) if f.startswith("case") and f.endswith(".pka")]
    if cands:
        with open(os.path.join(wd, sorted(cands)[0])) as fh:
            text_out = obs.strip_date(fh.read())
    return {"exc": exc, "rec": None, "text": text_out}


# ------------------------------------------------------------------ address layouts
class layout:
    """Replace Group.__hash__ / Iterative.__hash__ by stable 16-aligned pseudo-addresses."""

    def __init__(self, seed):
        self.rng = random.Random(seed)
        self.biggest = 0

    def __enter__(self):
        import propka.group as pg
        import propka.iterative as pi
        rng = self.rng
        self.old = (pg.Group.__hash__, pi.Iterative.__hash__)

        def h(obj):
            v = obj.__dict__.get("_vp_addr")
            if v is None:
                v = 16 * rng.getrandbits(44)
                obj.__dict__["_vp_addr"] = v
            return v
        pg.Group.__hash__ = h
        pi.Iterative.__hash__ = h
        for c in pg.Group.__subclasses__():
            if "__hash__" in c.__dict__:
                c.__hash__ = h
        return self

    def __exit__(self, *a):
        import propka.group as pg
        import propka.iterative as pi
        pg.Group.__hash__, pi.Iterative.__hash__ = self.old
        return False


def run_layouts(case, rng, viol, counts, classes):
    from .. import contracts, obs
    import propka.conformation_container as cc
    kind = rng.choice(("polyamine", "polyamine", "free-ligand", "free-ligand", "ligand", "cutout", "chimera", "small-file",
                       "multiconf", "protein", "cluster", "cluster", "acid-chain", "acid-chain", "acid-chain"))
    text, d = make_input(rng, kind)
    o = realise(concretise(rng.choice(([], ["-d"], [], ["PARAMS"])), text, rng))
    if kind in ("cluster", "acid-chain") and rng.random() < 0.6:
        o = ["-d"]          # non-covalently coupled systems are walked (and swapped) in display mode only
    if kind == "protein":
        k = 4
    else:
        k = rng.choice((8, 12, 16))
    # observe the size of the sets of groups that get iterated
    sizes = []
    orig = cc.ConformationContainer.get_a_coupled_system_of_groups
    base = obs.run_single(text, o, profiles=True)
    ref = json.loads(dumps(canonical(base)))
    big = largest_system(base.rec) if base.rec else 0
    for j in range(k):
        with layout("%s:%d" % (case["seed"], j)):
            run = obs.run_single(text, o, profiles=True)
        counts["layout_runs"] = counts.get("layout_runs", 0) + 1
        got = json.loads(dumps(canonical(run)))
        dd = first_difference(got, ref)
        if dd:
            ties = tied_coupled(base.rec) if base.rec else False
            viol.append({"cls": "address-dependent:tie-among-coupled-groups" if ties else "address-dependent",
                         "msg": "layout %d of %d changes the result of %r (options %r) at %s" % (j, k, d, [x for x in o if not str(x).endswith('.cfg')], dd)})
            break
    classes.append("layout-input:" + kind)
    classes.append("largest-coupled-set:%d" % min(big, 6))
    d2 = {"kind": "layouts", "input": d, "opts": [x if not str(x).endswith(".cfg") else "<cfg>" for x in o], "layouts": k,
          "largest_coupled_set": big}
    return d2, big >= 5


def largest_system(rec):
    """Size of the largest connected system of (non-)covalently coupled groups."""
    conf = rec["confs"][rec["names"][0]]
    best = 0
    for field in ("cov", "ncov"):
        adj = {}
        for g in conf["groups"]:
            if g[field]:
                adj.setdefault(tuple(g["akey"]), set()).update(tuple(k) for k in g[field])
        seen = set()
        for k in adj:
            if k in seen:
                continue
            stack, comp = [k], 0
            while stack:
                x = stack.pop()
                if x in seen:
                    continue
                seen.add(x)
                comp += 1
                stack.extend(adj.get(x, ()))
            best = max(best, comp)
    return best


def tied_coupled(rec):
    """Do two covalently coupled groups of the first conformation have exactly equal pKa?"""
    conf = rec["confs"][rec["names"][0]]
    idx = {tuple(g["akey"]): g for g in conf["groups"]}
    for g in conf["groups"]:
        for k in g["cov"]:
            o = idx.get(tuple(k))
            if o is not None and o is not g and o["pka"] == g["pka"]:
                return True
    return False


def run_case(case, tier):
    from .. import util
    rng = random.Random(case["seed"])
    viol, counts, classes = [], {}, []
    if case["kind"] == "history":
        desc, nontrivial = run_history(case, rng, viol, counts, classes)
    else:
        desc, nontrivial = run_layouts(case, rng, viol, counts, classes)
    return util.finish(case, viol, counts, classes, nontrivial, desc,
                       evals=counts.get("calls", 0) + counts.get("layout_runs", 0) + counts.get("fresh_references", 0))


def verdict(tier, counts, classes, nontrivial, results):
    reasons = []
    if counts.get("comparisons", 0) == 0:
        reasons.append("no history call compared with a fresh-interpreter reference")
    if counts.get("layout_runs", 0) == 0:
        reasons.append("no pseudo-address layout run")
    for c in ("mode:main", "mode:path", "mode:stream", "mode:zip"):
        if c not in classes:
            reasons.append("%s never exercised" % c)
    if not any(c.startswith("largest-coupled-set:") and int(c.split(":")[1]) >= 5 for c in classes):
        reasons.append("no set of >= 5 coupled groups was iterated under layouts")
    if nontrivial < 5:
        reasons.append("fewer than 5 non-trivial cases")
    return reasons
