"""C09 - charge curves and isoelectric points follow Henderson-Hasselbalch."""
import random

RULE = ("each case runs propka.run.single on a structure (repository proteins, cut-outs, acid-only / "
        "base-only / no-titratable-group subsets, the multi-conformation files) with a random -g grid, "
        "then calls get_charge_profile and get_pi on the result with random grids, windows and "
        "precisions 1e-2..1e-6 and non-powers of ten (0.02, 0.005, 2e-4 ...); for multi-conformation inputs a .pka file is written per conformation "
        "(propka.output.write_pka) and its table and pI line are checked against that conformation. Oracle: an independent Henderson-Hasselbalch evaluation from the group "
        "records (folded <- predicted pKa, unfolded <- model pKa); contract on every "
        "Group.calculate_charge call. Non-trivial: the structure has >= 2 titratable groups whose "
        "predicted pKa differs from the model pKa by > 0.05, and at least one pI with a sign change in "
        "the window was checked; distinct = distinct (structure digest, grid)."
        " 30 % of the cut-outs carry 1-3 ligands / nucleotides (groups of one type with different model pKa values).")
RULE = RULE + ' Round 8: grids with a third decimal; the written charge table must stand on the requested grid and is judged at the grid points themselves; API profiles are held against the grid.'
RULE = RULE + ' Round 11: one acid with 40-70 arginines (and the reverse) with pI windows reaching pH 18 / -5.'
ASSUMPTIONS = ["the total charge is strictly decreasing in pH, so the root in a window is unique",
               "pI tolerance = precision*(1+1e-6)+1e-9; text tolerance 0.005"]
TIMEOUT = {"quick": 1800, "thorough": 10800}


def generate(tier, seed):
    from .. import sources
    cases = []
    for name in sources.PROTEINS + sources.SMALL + sources.MULTICONF:
        cases.append({"kind": "file", "file": name, "seed": "%d:%s" % (seed, name),
                      "cost": 80 if name in sources.PROTEINS else 4})
    n = 400 if tier == "quick" else 15000
    for k in range(n):
        cases.append({"kind": "cutout", "seed": "%d:cut:%d" % (seed, k), "cost": 10})
    n = 40 if tier == "quick" else 3000
    for k in range(n):
        cases.append({"kind": "subset", "seed": "%d:sub:%d" % (seed, k), "cost": 6})
    # far more bases than acids (or the reverse): the charge curve crosses zero above pH 14 (below pH 0)
    for k in range(6 if tier == "quick" else 120):
        cases.append({"kind": "lopsided", "seed": "%d:lop:%d" % (seed, k), "cost": 12})
    return cases


def lopsided_structure(rng):
    """One acid and 40-70 arginines (or one base and many aspartates), single residues 25 A apart: the charge
    curve crosses zero beyond the usual pH range, where only a window that reaches out there finds it."""
    from .. import pdbio, sources
    many, one = rng.choice((("ARG", "ASP"), ("ARG", "GLU"), ("ASP", "LYS"), ("ARG", "TYR")))
    n = rng.randrange(40, 71)
    chains = "ABCDEFGHIJKLMNOPQRSTUVWXYZabcdefghijklmnopqrstuvwxyz0123456789"
    out = []
    k = 0
    for resn in [one] + [many] * n:
        res = sources.whole_residue(resn, {"ARG": "CZ", "ASP": "CG", "GLU": "CD", "LYS": "NZ", "TYR": "OH"}[resn])
        ca = [a for a in res if a.aname() == "CA"][0]
        gx, gy, gz = k % 5, (k // 5) % 5, k // 25
        sh = (gx * 25000 - ca.x, gy * 25000 - ca.y, gz * 25000 - ca.z)
        if out:
            out.append(pdbio.raw("TER"))
        for a in res:
            a = a.copy()
            a.chain, a.resnum, a.icode = chains[k % len(chains)], 10 + k // len(chains), " "
            a.x, a.y, a.z = a.x + sh[0], a.y + sh[1], a.z + sh[2]
            out.append(a)
        k += 1
    return out, "lopsided:%s x %d + %s" % (many, n, one)


def setup(tier):
    from .. import contracts
    from ..monitors import charge
    contracts.import_all_propka()
    charge.install_charge_contract()


def add_hetero(recs, rng, classes):
    """A ligand of the fragment library or a nucleotide (custom model pKa values per residue and atom
    name) placed next to an ionizable side chain."""
    from .. import fragments, pdbio
    from .c16 import titratable_anchor
    pool = sorted(fragments.FRAGMENTS) + ["dna:DA", "dna:DG", "dna:DC", "dna:DT"] * 3
    for k in range(rng.choice((1, 2, 2, 3))):
        # several at once: groups of one type then carry different model pKa values (DA 3.82, DG 9.59,
        # pyridine 5.00 are all of type NAR)
        fname = rng.choice(pool)
        frag, _e, _d = fragments.place_near(recs, fname, rng, anchor=titratable_anchor(recs, rng),
                                            dist_A=rng.choice((3.0, 3.5, 4.5, 6.0)), min_clear_A=2.7,
                                            chain="N" if fname.startswith("dna:") else "L", resnum=900 + k)
        if not frag:
            continue
        classes.append("hetero:" + fname)
        recs = recs + ([pdbio.raw("TER")] if fname.startswith("dna:") else []) + frag
    return recs


ACIDS = ("ASP", "GLU", "CYS", "TYR")
BASES = ("HIS", "LYS", "ARG")


def subset_structure(rng):
    """Cut-out in which the side chains of one class are mutated away (truncated to CB):
    acids only, bases only or no ionizable side chain at all."""
    from .. import sources
    recs = sources.random_small_structure(rng, 80, 500)
    mode = rng.choice(("acids-only", "bases-only", "none", "no-termini-acids"))
    drop = {"acids-only": BASES, "bases-only": ACIDS, "none": ACIDS + BASES, "no-termini-acids": BASES}[mode]
    out = []
    first_res = None
    for r in recs:
        if r.raw is None:
            if r.tag == "HETATM":
                continue
            if r.resn in drop and r.aname() not in ("N", "CA", "C", "O", "CB"):
                continue
            if mode in ("none", "no-termini-acids"):
                # no N-terminus / C-terminus group: drop backbone N of chain starts and any OXT
                if r.aname() in ("OXT", "O''"):
                    continue
        out.append(r)
    if mode in ("none", "no-termini-acids"):
        res = sources.residue_list(out)
        starts = {id(x.atoms[0]) for i, x in enumerate(res) if i == 0 or x.ter_before}
        kill = set()
        for i, x in enumerate(res):
            if i == 0 or x.ter_before:
                for a in x.atoms:
                    if a.aname() == "N":
                        kill.add(id(a))
        out = [r for r in out if id(r) not in kill]
    return out, mode


def random_grid(rng):
    step = rng.choice((0.1, 0.25, 0.5, 1.0, 0.2, 2.0, 0.05, 0.125, 0.375, 0.025, 0.333))
    mn = rng.choice((0.0, 0.0, 1.0, 2.5, -1.0, 4.0, 0.125, 1.005))
    mx = mn + step * rng.randrange(4, 60)
    return (mn, round(mx, 6), step)


def run_case(case, tier):
    from .. import obs, pdbio, sources, util
    from ..monitors import charge
    from ..oracles import hh
    rng = random.Random(case["seed"])
    viol, counts, classes = [], {}, []
    if case["kind"] == "file":
        recs = sources.repo_recs(case["file"])
        mode = "file"
    elif case["kind"] == "cutout":
        recs = sources.random_small_structure(rng, 80, 900)
        mode = "cutout"
        if rng.random() < 0.3:
            recs = add_hetero(recs, rng, classes)
        if rng.random() < 0.2:
            from .. import multiconf
            recs, _d = multiconf.build(rng, base=recs)
            mode = "multi-conformation"
    elif case["kind"] == "lopsided":
        recs, mode = lopsided_structure(rng)
        classes.append("lopsided")
    else:
        recs, mode = subset_structure(rng)
    grid = random_grid(rng) if rng.random() < 0.7 else (0.0, 14.0, 0.1)
    opts = ["-g"] + [repr(v) for v in grid] + util.neutral_options(rng, families=("display", "protonation", "keep", "swap-display"), classes=classes)
    text = pdbio.dump(recs)
    run = obs.run_single(text, opts, keep_mol=True)
    counts["pipeline_runs"] = 1
    desc = sources.describe(recs)
    desc.update({"kind": case["kind"], "mode": mode, "grid": grid, "file": case.get("file")})
    if run.exc:
        desc["exc"] = run.exc
        classes.append("raised:" + run.exc_type)
        return util.finish(case, viol, counts, classes, False, desc, inconclusive="raised " + run.exc)
    mol = run.mol
    groups = run.rec["confs"]["AVR"]["groups"]
    tit = [g for g in groups if g["titratable"]]
    nacid = sum(1 for g in tit if g["charge"] < 0)
    nbase = sum(1 for g in tit if g["charge"] > 0)
    classes.append("acids:%s bases:%s" % ("0" if not nacid else "+", "0" if not nbase else "+"))
    shifted = sum(1 for g in tit if abs(g["pka"] - g["model_pka"]) > 0.05)
    charge.probe_groups(mol, viol, counts)
    # API profiles on several grids
    for gr in [grid] + [random_grid(rng) for _ in range(2)]:
        prof = mol.get_charge_profile(conformation="AVR", grid=gr)
        counts["profiles"] = counts.get("profiles", 0) + 1
        og = charge.check_grid([p_[0] for p_ in prof], *gr)
        if og:
            viol.append({"cls": "charge-profile-" + og[0], "msg": "get_charge_profile: " + og[1]})
        charge.check_charge_profile(prof, groups, viol, counts, "api")
    # every single conformation too
    for name in run.rec["names"][:3]:
        prof = mol.get_charge_profile(conformation=name, grid=(2.0, 12.0, 2.5))
        charge.check_charge_profile(prof, run.rec["confs"][name]["groups"], viol, counts, "api")
    # pI through the API with windows and precisions
    pichecked = 0
    for _ in range(4):
        prec = rng.choice((1e-2, 1e-3, 1e-4, 1e-5, 1e-6, 0.02, 0.005, 2e-4, 0.03, 7e-3, 0.25))
        lo = rng.choice((0.0, 0.0, 2.0, -2.0, 5.0))
        hi = rng.choice((14.0, 14.0, 12.0, 16.0, 9.0))
        if case["kind"] == "lopsided":
            lo, hi = rng.choice(((-4.0, 18.0), (0.0, 20.0), (10.0, 18.0), (-5.0, 8.0), (-4.0, 14.0), (0.0, 18.0)))
        pi = mol.get_pi(conformation="AVR", grid=(lo, hi), precision=prec)
        before = counts.get("pi_checked", 0)
        charge.check_pi(pi, groups, lo, hi, prec, viol, counts, "api window %r precision %g" % ((lo, hi), prec))
        pichecked += counts.get("pi_checked", 0) - before
    # text: charge table and pI line
    parsed = obs.parse_pka_text(run.text)
    if not parsed["charge"]:
        viol.append({"cls": "charge-table-missing", "msg": "no charge table in the .pka file"})
    else:
        # the table stands on the grid that was asked for (pH printed to two decimals); the charges are those
        # at the grid points themselves
        want = hh.grid_points(*grid)
        rows = parsed["charge"]
        if [round(r_[0], 2) for r_ in rows] != [round(v, 2) for v in want]:
            viol.append({"cls": "charge-table-not-on-the-requested-grid", "msg": "-g %r: %d rows %r ..., grid has %d points %r ..." % (
                grid, len(rows), [r_[0] for r_ in rows[:3]], len(want), [round(v, 4) for v in want[:3]])})
        else:
            rows = [(v, r_[1], r_[2]) for v, r_ in zip(want, rows)]
        charge.check_charge_profile(rows, groups, viol, counts, "text")
        counts["text_tables"] = 1
    if parsed["pi"] is None:
        viol.append({"cls": "pi-line-missing", "msg": "no pI line in the .pka file"})
    else:
        charge.check_pi(parsed["pi"], groups, 0.0, 14.0, 1e-4, viol, counts, "text", slack=0.005)
    # a .pka file written for one conformation (public propka.output.write_pka): its table and its pI
    # line describe that conformation
    if len(run.rec["names"]) > 1:
        import os
        import propka.output as po
        for name in run.rec["names"][:3]:
            path = os.path.join(util.worker_tmp(), "conf_%s.pka" % name)
            try:
                po.write_pka(mol, mol.version.parameters, filename=path, conformation=name, verbose=False)
                ctext = open(path).read()
            except Exception as e:
                viol.append({"cls": "per-conformation-file-raises", "msg": "write_pka(conformation=%r): %r" % (name, e)})
                continue
            cparsed = obs.parse_pka_text(ctext)
            cgroups = run.rec["confs"][name]["groups"]
            counts["per_conformation_files"] = counts.get("per_conformation_files", 0) + 1
            if cparsed["charge"]:
                crows = cparsed["charge"]
                cwant = hh.grid_points(*grid)
                if [round(r_[0], 2) for r_ in crows] != [round(v, 2) for v in cwant]:
                    viol.append({"cls": "per-conformation-file:charge-table-not-on-the-requested-grid",
                                 "msg": "file written for %s, -g %r: %d rows, grid has %d points" % (name, grid, len(crows), len(cwant))})
                else:
                    crows = [(v, r_[1], r_[2]) for v, r_ in zip(cwant, crows)]
                charge.check_charge_profile(crows, cgroups, viol, counts, "text")
            if cparsed["pi"] is not None:
                nv = len(viol)
                charge.check_pi(cparsed["pi"], cgroups, 0.0, 14.0, 1e-4, viol, counts,
                                "file written for conformation %s" % name, slack=0.005)
                for v in viol[nv:]:
                    v["cls"] = "per-conformation-file:" + v["cls"]
    if pichecked:
        classes.append("pi-sign-change-checked")
    nontrivial = shifted >= 2 and pichecked > 0
    desc.update({"titratable": len(tit), "shifted": shifted, "pi_text": parsed["pi"]})
    import hashlib
    return util.finish(case, viol, counts, classes, nontrivial, desc,
                       digest=hashlib.sha1((text + repr(grid)).encode()).hexdigest()[:16])


def verdict(tier, counts, classes, nontrivial, results):
    reasons = []
    if counts.get("charge_contract", 0) == 0:
        reasons.append("contract on calculate_charge never evaluated")
    if counts.get("pi_checked", 0) == 0:
        reasons.append("no pI with a sign change was checked")
    if counts.get("text_tables", 0) == 0:
        reasons.append("no charge table parsed")
    if nontrivial < 5:
        reasons.append("fewer than 5 non-trivial cases")
    return reasons
