"""C08 - the conformation average is the mean over the conformations that contain a group."""
import random

RULE = ("each case is a multi-conformation input: the repository's five conf-* files, 4DFR/1HPX with their "
        "own alternate locations, and inputs built from cut-outs with 2-5 MODELs or alternate-location "
        "tags A-E / 1-5 (also starting at B or 2), jittered side chains, partial alternates, point "
        "mutants in the first / a middle / the last conformation, models lacking atoms, residues or a "
        "whole chain, and k identical models. Oracle: (i) every AVR group equals the arithmetic mean, "
        "computed by the harness, of the records of the conformations that report the group (pKa, both "
        "desolvation terms, buried, count, determinants by partner label; a determinant absent from a "
        "conformation counts 0); (ii) every group reported by a conformation is in AVR exactly once; "
        "(iii) single conformation: AVR == 1A, k identical models == one model; (iv) top-up, from the "
        "atom lists of every conformation against the harness's own reading of the input: own atoms "
        "untouched, compatible atoms of other conformations present, no residue with two residue names. "
        "Non-trivial: a reported group exists in a proper non-empty subset of the conformations, or >= 3 "
        "conformations; distinct = distinct input digests."
        " Same-state cases: alternate locations that repeat one set of coordinates (2-3 states on part of 1-3 residues; plain, --protonate-all, or -k with supplied hydrogens moved off the ideal positions): every conformation and AVR equal the structure written without alternate locations.")
RULE = RULE + ' Round 8: the written table of a multi-conformation run shows the mean (two decimals; neighbour counts within 1, means of k+1/2 written the same way throughout a file).'
RULE = RULE + ' Rounds 11-12: a metal site holding another ion in each model (empty in one of three or more); one residue that is itself, a mutant and absent in different models; completion must come from the earliest donor.'
ASSUMPTIONS = ["groups are identified across conformations by (chain, number, insertion code, atom name, type)",
               "determinants are compared per (type, partner label), which is what the output shows"]
TIMEOUT = {"quick": 2400, "thorough": 14400}


def generate(tier, seed):
    from .. import sources
    cases = []
    for name in sources.MULTICONF + ["4DFR.pdb", "1HPX.pdb"]:
        cases.append({"kind": "file", "file": name, "seed": "%d:%s" % (seed, name), "cost": 5 if name.startswith("conf") else 300})
    n = 500 if tier == "quick" else 25000
    for k in range(n):
        cases.append({"kind": "built", "seed": "%d:b:%d" % (seed, k), "cost": 30})
    n = 25 if tier == "quick" else 2500
    for k in range(n):
        cases.append({"kind": "single", "seed": "%d:s:%d" % (seed, k), "cost": 12})
    n = 40 if tier == "quick" else 3000
    for k in range(n):
        cases.append({"kind": "same-states", "seed": "%d:ss:%d" % (seed, k), "cost": 30})
    return cases


def setup(tier):
    from .. import contracts
    contracts.import_all_propka()


def same_states_case(case, rng, viol, counts, classes):
    """Alternate locations that repeat the same coordinates (2-3 states on part of 1-3 residues),
    optionally with explicit hydrogens and -k / --protonate-all: all conformations are the same
    structure, so they must carry identical results, equal to the average and to the run of the
    structure written without alternate locations."""
    from .. import obs, pdbio, sources, util
    base = [r for r in sources.random_small_structure(rng, 60, 500) if r.raw is not None or r.alt in (" ", "A")]
    base = sources.no_hydrogens([multiconf_blank(r) for r in base])
    from .c06 import has_twins, relabel
    if has_twins(base):
        # insertion-code twins are merged when conformations are completed (known finding, judged by
        # the top-up oracle of the other cases): number them apart here
        base, _ = relabel(base, "icode-renumber", rng)
    mode = rng.choice(("plain", "keep-protons", "keep-protons", "protonate-all"))
    opts = {"plain": [], "keep-protons": ["-k"], "protonate-all": ["--protonate-all"]}[mode]
    desc = {"kind": "same-states", "mode": mode}
    if mode == "keep-protons":
        base = [r for r in base if r.raw is not None or r.tag == "ATOM  "]
        r0 = obs.run_single(pdbio.dump(base), with_atoms=True, write_pka=False)
        counts["pipeline_runs"] = counts.get("pipeline_runs", 0) + 1
        if r0.exc or len(r0.rec["names"]) != 1:
            return desc, "base raised"
        base, nh, _ = sources.with_hydrogens(base, r0.rec["confs"][r0.rec["names"][0]]["hydrogens"])
        desc["hydrogens"] = nh
        # move the supplied hydrogens a little off the positions the program would build itself, so
        # that a conformation which lost them and had them rebuilt cannot look the same
        jig = []
        for r in base:
            if r.raw is None and r.elem() == "H":
                r = r.copy()
                r.x += rng.randrange(-120, 121)
                r.y += rng.randrange(-120, 121)
                r.z += rng.randrange(-120, 121)
            jig.append(r)
        base = jig
    resids = sorted({(r.chain, r.resnum, r.icode) for r in base if r.raw is None and r.tag == "ATOM  "})
    if not resids:
        return desc, "no residues"
    chosen = set(rng.sample(resids, min(len(resids), rng.choice((1, 2, 3)))))
    nstates = rng.choice((2, 2, 3))
    part = rng.choice(("sidechain-heavy", "whole-residue", "one-atom"))
    out = []
    one = None
    for r in base:
        if r.raw is None and (r.chain, r.resnum, r.icode) in chosen:
            hit = {"whole-residue": True,
                   "sidechain-heavy": r.aname() not in ("N", "CA", "C", "O") and r.elem() != "H",
                   "one-atom": False}[part]
            if part == "one-atom" and one is None and r.aname() not in ("N", "CA", "C", "O") and r.elem() != "H":
                hit, one = True, r
            if hit:
                for st in "ABC"[:nstates]:
                    c = r.copy()
                    c.alt = st
                    out.append(c)
                continue
        out.append(r)
    desc.update({"states": nstates, "part": part, "residues": len(chosen)})
    if not any(r.raw is None and r.alt != " " for r in out):
        return desc, "the chosen residues have no atom of the chosen part (e.g. GLY side chain)"
    multi = obs.run_single(pdbio.dump(out), opts)
    ref = obs.run_single(pdbio.dump(base), opts)
    counts["pipeline_runs"] = counts.get("pipeline_runs", 0) + 2
    if multi.exc or ref.exc:
        if multi.exc_type != ref.exc_type:
            viol.append({"cls": "same-states-outcome-differs", "msg": "with alternate locations: %r, without: %r" % (multi.exc, ref.exc)})
        return desc, "raised"
    names = multi.rec["names"]
    counts["same_state_inputs"] = counts.get("same_state_inputs", 0) + 1
    classes.append("same-states:" + mode)
    if len(names) != nstates:
        viol.append({"cls": "conformation-set", "msg": "%d alternate-location states, conformations %r" % (nstates, names)})
        return desc, None
    refc = ref.rec["confs"][ref.rec["names"][0]]
    for n in names + ["AVR"]:
        target = ref.rec["confs"]["AVR"] if n == "AVR" else refc
        d = obs.compare_confs(target, multi.rec["confs"][n], tol=1e-7, dets=(n != "AVR"),
                              only=(lambda g: g["use"]) if n == "AVR" else None)
        counts["same_state_comparisons"] = counts.get("same_state_comparisons", 0) + 1
        if d:
            viol.append({"cls": "same-states-differ", "msg": "%s (%s, %d states on %s): conformation %s differs from the structure without alternate "
                         "locations: %s" % (mode, " ".join(opts) or "default", nstates, part, n, obs.brief(d, 4))})
            break
    return desc, None


def report_renders_mean(run, viol, counts, classes):
    """The determinant table of the written file shows, per group, the mean over the conformations:
    pKa and energies to two decimals, the two neighbour counts as whole numbers. A mean count of
    k + 1/2 has two nearest whole numbers; whichever way the writer goes, it goes the same way in
    every row of one file."""
    import math
    from .. import obs
    parsed = obs.parse_pka_text(run.text)
    try:
        table = obs.parse_det_rows(parsed["det_rows"])
    except ValueError:
        return
    avr = {}
    for g in run.rec["confs"]["AVR"]["groups"]:
        avr.setdefault(g["label"], []).append(g)
    ways = {}
    for row in table:
        gs = avr.get(row["label"], [])
        if len(gs) != 1:
            continue
        g = gs[0]
        counts["report_rows_vs_mean"] = counts.get("report_rows_vs_mean", 0) + 1
        bad = []
        for fld, tcol in (("pka", "pka"), ("E_vol", "E_vol"), ("E_loc", "E_loc")):
            if abs(row[tcol] - g[fld]) > 0.00501:
                bad.append("%s printed %.2f, mean %.4f" % (fld, row[tcol], g[fld]))
        for fld in ("n_vol", "n_loc"):
            m = g[fld]
            if abs(row[fld] - m) >= 1.0:
                bad.append("%s printed %d, mean %.3f" % (fld, row[fld], m))
            elif abs(m - math.floor(m) - 0.5) < 1e-9:
                ways.setdefault("down" if row[fld] == math.floor(m) else "up", []).append((row["label"], fld, m, row[fld]))
        if bad:
            viol.append({"cls": "report-is-not-the-mean", "msg": "%s: %s" % (row["label"], "; ".join(bad))})
    if ways:
        classes.append("half-integer-mean-count-reported")
    if len(ways) > 1:
        viol.append({"cls": "report-rounds-means-both-ways", "msg": "mean counts of k+1/2 are written down in %r and up in %r" % (
            ways["down"][:2], ways["up"][:2])})


def multiconf_blank(r):
    from .. import multiconf
    return multiconf._blank_alt(r) if r.raw is None else r


def run_case(case, tier):
    from .. import multiconf, obs, pdbio, sources, util
    rng = random.Random(case["seed"])
    viol, counts, classes = [], {}, []
    if case["kind"] == "same-states":
        desc, inc = same_states_case(case, rng, viol, counts, classes)
        return util.finish(case, viol, counts, classes, inc is None, desc, inconclusive=inc)
    ignore = tuple(util.parse_cfg()["ignore_residues"])
    desc = {"kind": case["kind"]}
    if case["kind"] == "file":
        recs = sources.repo_recs(case["file"])
        desc["file"] = case["file"]
    elif case["kind"] == "built":
        recs, d = multiconf.build(rng)
        desc.update(d)
    else:
        recs = [r for r in sources.random_small_structure(rng, 60, 500) if r.raw is not None or r.alt in (" ", "A")]
        recs = [multiconf._blank_alt(r) if r.raw is None else r for r in recs]
    text = pdbio.dump(recs)
    run = obs.run_single(text, with_atoms=True)
    counts["pipeline_runs"] = 1
    desc.update({"atoms": len(pdbio.atoms(recs)), "exc": run.exc})
    if run.exc:
        viol.append({"cls": "multiconf-raises:" + run.exc_type, "msg": "single() raised %s on a multi-conformation input (%r)" % (run.exc, desc.get("events"))})
        return util.finish(case, viol, counts, classes, False, desc)
    names = run.rec["names"]
    desc["conformations"] = names
    twins = False
    seen = {}
    for r in recs:
        if r.raw is None:
            seen.setdefault((r.chain, r.resnum), set()).add(r.icode)
    twins = any(len(v) > 1 for v in seen.values())
    before = len(viol)
    multiconf.check_average(run.rec, viol, counts, classes)
    multiconf.check_topup(run.rec, text, ignore, viol, counts, classes)
    if len(names) > 1 and run.text:
        report_renders_mean(run, viol, counts, classes)
    if twins:
        # residues that share chain and number (insertion-code twins) are merged by label
        # (known finding icode-twins-merged); only violations located ON such a residue are
        # attributed to that mechanism
        twin_ids = {k for k, v in seen.items() if len(v) > 1}
        for v in viol[before:]:
            res = v.pop("res", None)
            if res is not None and ((res[0] if res[0] != "_" else " "), res[1]) in twin_ids:
                v["cls"] = "twins:" + v["cls"]
    for v in viol:
        v.pop("res", None)
    if len(names) == 1:
        counts["single_conformation_checks"] = 1
        diffs = obs.compare_confs(run.rec["confs"][names[0]], run.rec["confs"]["AVR"], tol=1e-9, dets=False,
                                  only=lambda g: g["use"])
        diffs = [d for d in diffs if d[0] != "missing-in-b" or True]
        for g in run.rec["confs"]["AVR"]["groups"]:
            pass
        if diffs:
            viol.append({"cls": "single-conformation-avr-differs", "msg": obs.brief(diffs, 4)})
    if desc.get("mode") == "identical-models":
        one = []
        inside = False
        for r in recs:
            if r.raw is not None and r.tag == "MODEL ":
                inside = int(r.raw[6:]) == 1
                continue
            if r.raw is not None and r.tag == "ENDMDL":
                inside = False
                continue
            if inside:
                one.append(r)
        r1 = obs.run_single(pdbio.dump(one))
        counts["pipeline_runs"] += 1
        counts["identical_model_checks"] = 1
        if r1.exc:
            viol.append({"cls": "identical-models-differ", "msg": "one model raises %s" % r1.exc})
        else:
            diffs = obs.compare_confs(r1.rec["confs"]["AVR"], run.rec["confs"]["AVR"], tol=1e-7, dets=False)
            if not diffs:
                for ga, gb in zip(r1.rec["confs"]["AVR"]["groups"], run.rec["confs"]["AVR"]["groups"]):
                    da, db = multiconf.det_by_label(ga), multiconf.det_by_label(gb)
                    if any(abs(da.get(k, 0) - db.get(k, 0)) > 1e-7 for k in set(da) | set(db)):
                        diffs.append(("determinants", ga["label"]))
            if diffs:
                viol.append({"cls": "identical-models-differ", "msg": "%d identical models vs one: %s" % (desc["k"], obs.brief(diffs, 4))})
    for e in desc.get("events", []):
        classes.append("event:" + e.split("-in-model")[0].split("-tag")[0])
    classes.append("conformations:%d" % min(len(names), 5))
    nontrivial = "group-in-proper-subset-of-conformations" in classes or len(names) >= 3
    import hashlib
    return util.finish(case, viol, counts, classes, nontrivial, desc, digest=hashlib.sha1(text.encode()).hexdigest()[:16])


def verdict(tier, counts, classes, nontrivial, results):
    reasons = []
    if counts.get("avr_groups_checked", 0) == 0:
        reasons.append("no AVR group checked")
    if counts.get("topup_candidates", 0) == 0:
        reasons.append("top-up never needed")
    for c in ("group-in-proper-subset-of-conformations", "topup-incompatible-skipped", "topup-needed"):
        if c not in classes:
            reasons.append("class %s never observed" % c)
    if counts.get("identical_model_checks", 0) == 0:
        reasons.append("identical models never exercised")
    if counts.get("same_state_comparisons", 0) == 0:
        reasons.append("identical alternate-location states never exercised")
    if nontrivial < 8:
        reasons.append("fewer than 8 non-trivial cases")
    return reasons
