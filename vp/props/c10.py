"""C10 - folding free energy obeys proton linkage and is reported on the requested grid."""
import math
import random

RULE = ("each case runs propka.run.single with a random -g grid and -w window, then evaluates on the "
        "result: (i) proton linkage - central difference of the real calculate_folding_energy vs "
        "1.36*(Q_folded-Q_unfolded) from the real calculate_charge at 12 pH values and the Simpson "
        "integral over a random interval, both reference states; (ii) optimum / 80% / stability ranges "
        "of get_folding_profile against min/arg-min recomputed from the returned profile, and the "
        "printed lines; (iii) the pH values of both profiles and of the charge table against the "
        "inclusive arithmetic grid (also a contract on every make_grid call); (iv) the printed folding "
        "rows against the window. Non-trivial: >= 2 titratable groups with shifted pKa and a grid whose "
        "maximum lies on the grid; distinct = distinct (structure digest, grid, window)."
        " 30 % of the cut-outs carry 1-3 ligands / nucleotides (custom model pKa values enter the unfolded charge and the folding energy alike).")
RULE = RULE + " Rounds 10-12: one-point grids; the charge curves of every conformation are held against that conformation's own groups."
ASSUMPTIONS = ["linkage tolerance 2e-5*(1+N/10) for h=1e-3; Simpson tolerance 1e-4*(1+N/10)",
               "window rows: multiples of the window step counted from 0; windows are generated with "
               "end points on multiples of the step",
               "grid: min + i*step for i <= floor((max-min)/step + 1e-9), compared to 1e-9"]
TIMEOUT = {"quick": 1800, "thorough": 10800}
K = 1.36


def generate(tier, seed):
    from .. import sources
    cases = []
    for name in sources.PROTEINS + sources.SMALL + sources.MULTICONF:
        for rep in range(2 if tier == "quick" else 8):
            cases.append({"kind": "file", "file": name, "seed": "%d:%s:%d" % (seed, name, rep),
                          "cost": 80 if name in sources.PROTEINS else 4})
    n = 450 if tier == "quick" else 15000
    for k in range(n):
        cases.append({"kind": "cutout", "seed": "%d:cut:%d" % (seed, k), "cost": 10})
    # the grids a user is most likely to type, on one small structure each
    for g in USER_GRIDS:
        cases.append({"kind": "usergrid", "grid": list(g), "seed": "%d:ug:%r" % (seed, g), "cost": 6})
    return cases


USER_GRIDS = [(0.0, 14.0, 0.1), (0.0, 14.0, 0.05), (0.0, 14.0, 0.2), (0.0, 14.0, 0.25), (0.0, 14.0, 0.5),
              (0.0, 14.0, 1.0), (0.0, 14.0, 0.01), (1.0, 13.0, 0.1), (2.0, 12.0, 0.1), (0.0, 7.0, 0.1),
              (4.0, 10.0, 0.3), (0.0, 14.0, 0.7), (0.0, 12.0, 0.15), (6.0, 8.0, 0.02), (0.0, 14.0, 2.0),
              # grids whose points need a third decimal
              (2.0, 9.0, 0.125), (6.0, 8.0, 0.025), (6.5, 7.5, 0.005), (0.125, 10.125, 0.5), (0.0, 14.0, 0.375),
              (3.0, 4.0, 0.001), (0.005, 12.005, 0.25),
              # maxima that are not grid points (the grid ends below them, never beyond)
              (0.0, 14.0, 0.3), (0.0, 14.0, 0.75), (3.0, 10.0, 0.4), (0.0, 14.0, 0.9), (2.0, 9.0, 0.6), (0.0, 10.0, 3.0)]


def setup(tier):
    from .. import contracts
    from ..monitors import charge
    contracts.import_all_propka()
    charge.install_grid_contract()


def random_grid(rng):
    step = rng.choice((0.01, 0.02, 0.05, 0.1, 0.1, 0.2, 0.25, 0.3, 0.5, 0.7, 1.0, 2.0, 0.125, 0.025, 0.375))
    mn = rng.choice((0.0, 0.0, 0.0, 1.0, 2.0, 4.0, 0.5, 0.125, 1.005))
    nmax = int((16.0 - mn) / step)
    n = rng.randrange(3, max(4, min(141 if step >= 0.05 else 400, nmax)))
    if rng.random() < 0.05:
        # a grid of one point (-g 7 7 0.1): still a grid - one row in each table
        return (mn, mn, step)
    if rng.random() < 0.25:
        # a maximum between two grid points: 0.2 .. 0.9 of a step beyond the last one
        return (mn, round(mn + (n + rng.choice((0.2, 0.5, 0.6, 0.9))) * step, 6), step)
    return (mn, round(mn + n * step, 6), step)


def random_window(rng, grid):
    ws = rng.choice((0.25, 0.5, 1.0, 1.0, 2.0, 3.0, 0.1, 0.2, 0.4))
    lo = ws * math.floor(rng.uniform(0, 5) / ws)
    hi = ws * math.ceil(rng.uniform(6, 14) / ws)
    # decimal end points such as 0.6 or 7.6 are what a user types; round away the binary noise
    return (round(lo, 6), round(hi, 6), ws)


def check_linkage(mol, rec, rng, viol, counts):
    params = mol.version.parameters
    for cname in ["AVR"] + rec["names"][:1]:
        conf = mol.conformations[cname]
        n = sum(1 for g in rec["confs"][cname]["groups"] if g["titratable"])
        tol = 2e-5 * (1 + n / 10.0)
        for reference in ("neutral", "low-pH"):
            h = 1e-3
            for _ in range(6):
                ph = rng.uniform(-1.0, 15.0)
                d = (conf.calculate_folding_energy(ph=ph + h, reference=reference)
                     - conf.calculate_folding_energy(ph=ph - h, reference=reference)) / (2 * h)
                qu, qf = conf.calculate_charge(params, ph=ph)
                counts["linkage_points"] = counts.get("linkage_points", 0) + 1
                if not abs(d - K * (qf - qu)) <= tol:
                    viol.append({"cls": "linkage-derivative", "msg": "%s ref=%s pH %.3f: d(dG)/dpH = %.6f but 1.36*(Qf-Qu) = %.6f (N=%d)" % (
                        cname, reference, ph, d, K * (qf - qu), n)})
                    break
            a = rng.uniform(0, 6)
            b = a + rng.uniform(1, 8)
            from ..oracles import hh
            integ = hh.simpson(lambda p: (lambda q: q[1] - q[0])(conf.calculate_charge(params, ph=p)), a, b, 400)
            dg = (conf.calculate_folding_energy(ph=b, reference=reference)
                  - conf.calculate_folding_energy(ph=a, reference=reference))
            counts["linkage_integrals"] = counts.get("linkage_integrals", 0) + 1
            if not abs(dg - K * integ) <= 1e-4 * (1 + n / 10.0):
                viol.append({"cls": "linkage-integral", "msg": "%s ref=%s: dG(%.3f)-dG(%.3f) = %.6f, 1.36*integral = %.6f" % (
                    cname, reference, b, a, dg, K * integ)})


def check_profile_summary(profile, opt, r80, stab, viol, counts, where):
    """opt / ranges recomputed from the returned profile."""
    counts["profile_summaries"] = counts.get("profile_summaries", 0) + 1
    if not profile:
        return
    dmin = min(p[1] for p in profile)
    if opt[0] is None or abs(opt[1] - dmin) > 1e-12 or not any(abs(p[0] - opt[0]) < 1e-12 and abs(p[1] - dmin) < 1e-12 for p in profile):
        viol.append({"cls": "optimum-not-minimum", "msg": "%s: reported optimum %r, minimum of the profile %.6f at pH %r" % (
            where, opt, dmin, [p[0] for p in profile if p[1] == dmin][:1])})
        return
    in80 = [p[0] for p in profile if p[1] < 0.8 * dmin]
    want80 = (min(in80), max(in80)) if in80 else (None, None)
    neg = [p[0] for p in profile if p[1] < 0.0]
    wantst = (min(neg), max(neg)) if neg else (None, None)
    if tuple(r80) != want80:
        viol.append({"cls": "range80-inconsistent", "msg": "%s: 80%% range %r, from profile %r" % (where, tuple(r80), want80)})
    if tuple(stab) != wantst:
        viol.append({"cls": "stability-range-inconsistent", "msg": "%s: stability range %r, from profile %r" % (where, tuple(stab), wantst)})


def run_case(case, tier):
    from .. import obs, pdbio, sources, util
    from ..monitors import charge
    from ..oracles import hh
    rng = random.Random(case["seed"])
    viol, counts, classes = [], {}, []
    if case["kind"] == "file":
        recs = sources.repo_recs(case["file"])
        grid = random_grid(rng)
    elif case["kind"] == "usergrid":
        recs = sources.random_small_structure(rng, 80, 400)
        grid = tuple(case["grid"])
    else:
        recs = sources.random_small_structure(rng, 80, 900)
        if rng.random() < 0.3:
            from .c09 import add_hetero
            recs = add_hetero(recs, rng, classes)
        if rng.random() < 0.2:
            from .. import multiconf
            recs, _d = multiconf.build(rng, base=recs)
            classes.append("multi-conformation")
        grid = random_grid(rng)
    window = random_window(rng, grid)
    parts = [["-g"] + [repr(v) for v in grid], ["-w"] + [repr(v) for v in window],
             util.neutral_options(rng, families=("display", "protonation", "keep", "swap-display"), classes=classes)]
    rng.shuffle(parts)                  # the order of options on the command line carries no meaning
    opts = [x for part in parts for x in part]
    if opts.index("-w") < opts.index("-g"):
        classes.append("window-before-grid")
    text = pdbio.dump(recs)
    run = obs.run_single(text, opts, keep_mol=True)
    counts["pipeline_runs"] = 1
    desc = sources.describe(recs)
    desc.update({"kind": case["kind"], "grid": grid, "window": window, "file": case.get("file")})
    if run.exc:
        desc["exc"] = run.exc
        classes.append("raised:" + run.exc_type)
        return util.finish(case, viol, counts, classes, False, desc, inconclusive="raised " + run.exc)
    mol = run.mol
    groups = run.rec["confs"]["AVR"]["groups"]
    tit = [g for g in groups if g["titratable"]]
    shifted = sum(1 for g in tit if abs(g["pka"] - g["model_pka"]) > 0.05)
    # (i) linkage
    check_linkage(mol, run.rec, rng, viol, counts)
    # (ii)+(iii) API profiles
    want = hh.grid_points(*grid)
    for reference in ("neutral", "low-pH"):
        prof, opt, r80, stab = mol.get_folding_profile(conformation="AVR", reference=reference, grid=grid)
        g = charge.check_grid([p[0] for p in prof], *grid)
        if g:
            viol.append({"cls": g[0], "msg": "get_folding_profile: " + g[1]})
        check_profile_summary(prof, opt, r80, stab, viol, counts, "get_folding_profile(%s)" % reference)
    # the two curves the linkage is stated for, conformation by conformation: what get_charge_profile returns for
    # a conformation are the sums over that conformation's own groups (a group that only other conformations hold
    # is in neither curve), and the derivative of that conformation's folding energy follows their difference
    if len(run.rec["names"]) > 1:
        for cname in run.rec["names"][:3]:
            cgroups = run.rec["confs"][cname]["groups"]
            sub = (grid[0], min(grid[1], grid[0] + 6 * grid[2]), grid[2]) if grid[1] > grid[0] else grid
            cp = mol.get_charge_profile(conformation=cname, grid=sub)
            nv_ = len(viol)
            charge.check_charge_profile(cp, cgroups, viol, counts, "api")
            for v_ in viol[nv_:]:
                v_["cls"] = "per-conformation-" + v_["cls"]
                v_["msg"] = "conformation %s: %s" % (cname, v_["msg"])
            counts["per_conformation_profiles"] = counts.get("per_conformation_profiles", 0) + 1
    cprof = mol.get_charge_profile(conformation="AVR", grid=grid)
    g = charge.check_grid([p[0] for p in cprof], *grid)
    if g:
        viol.append({"cls": g[0], "msg": "get_charge_profile: " + g[1]})
    # text
    parsed = obs.parse_pka_text(run.text)
    prof, opt, r80, stab = mol.get_folding_profile(conformation="AVR", reference="neutral", grid=grid)
    bygrid = {round(p[0], 6): p[1] for p in prof}
    # charge table on the grid
    tph = [row[0] for row in parsed["charge"]]
    wantr = [round(v, 2) for v in want]
    if [round(v, 2) for v in tph] != wantr:
        cls = "grid-end-point-lost" if [round(v, 2) for v in tph] == wantr[:-1] else "charge-table-off-grid"
        viol.append({"cls": cls, "msg": "charge table has %d rows ending at %r; grid %r has %d points ending at %r" % (
            len(tph), tph[-1] if tph else None, grid, len(want), want[-1])})
    # the written charge table is the AVR charge profile (the curves the folding profile is linked to)
    if len(parsed["charge"]) == len(cprof):
        for (tp, tu, tf), (ap, au, af) in zip(parsed["charge"], cprof):
            if abs(tu - au) > 0.005 + 1e-9 or abs(tf - af) > 0.005 + 1e-9:
                viol.append({"cls": "written-charge-table-not-the-linked-curves", "msg": "pH %.2f: written unfolded/folded %.2f/%.2f, "
                             "charge curves of the reported (AVR) profile %.4f/%.4f" % (tp, tu, tf, au, af)})
                break
    # (iv) window rows
    lo, hi, ws = window
    printed = parsed["folding"]
    counts["window_rows"] = counts.get("window_rows", 0) + len(printed)
    # a printed row shows its pH with two decimals (the program rounds the decimal value half-even,
    # Python rounds the binary value): it denotes any grid point within 0.005 of the printed number
    inwin = [v for v in want if lo - 1e-9 <= v <= hi + 1e-9]
    for ph, dg in printed:
        near = [v for v in inwin if abs(v - ph) <= 0.005 + 1e-9]
        if not near:
            viol.append({"cls": "window-row-outside", "msg": "printed folding row pH %.2f is not a grid point inside window %r" % (ph, window)})
            break
        if not any(abs(v / ws - round(v / ws)) * ws <= 0.05 + 1e-9 for v in near):
            viol.append({"cls": "window-row-off-step", "msg": "printed folding row pH %.2f is not within 0.05 of a multiple of the window step %r (grid %r)" % (ph, ws, grid)})
            break
        apis = [bygrid[round(v, 6)] for v in near if round(v, 6) in bygrid]
        if apis and not any(abs(api - dg) <= 0.005 + 1e-9 for api in apis):
            viol.append({"cls": "window-row-value", "msg": "printed dG %.2f at pH %.2f, profile has %r" % (dg, ph, apis[:3])})
            break
    pvals = sorted(p[0] for p in printed)
    import bisect
    for v in want:
        m = v / ws
        if lo - 1e-9 <= v <= hi + 1e-9 and abs(m - round(m)) < 1e-9:
            i = bisect.bisect_left(pvals, v - 0.005 - 1e-9)
            if not (i < len(pvals) and pvals[i] <= v + 0.005 + 1e-9):
                viol.append({"cls": "window-row-missing", "msg": "grid point pH %r is a multiple of the window step %r inside %r but not printed" % (v, ws, window)})
                break
    # printed optimum lines
    if opt[0] is not None:
        if parsed["opt"] is None or abs(parsed["opt"][0] - opt[0]) > 0.05 + 1e-9 or abs(parsed["opt"][1] - opt[1]) > 0.05 + 1e-9:
            viol.append({"cls": "optimum-line", "msg": "printed optimum %r vs API %r" % (parsed["opt"], opt)})
    for key, api in (("r80", r80), ("stab", stab)):
        if api[0] is not None:
            pr = parsed[key]
            if pr is None or abs(pr[0] - api[0]) > 0.05 + 1e-9 or abs(pr[1] - api[1]) > 0.05 + 1e-9:
                viol.append({"cls": "range-line", "msg": "printed %s %r vs API %r" % (key, pr, api)})
    on_grid = abs((grid[1] - grid[0]) / grid[2] - round((grid[1] - grid[0]) / grid[2])) < 1e-9
    classes.append("grid-step:%g" % grid[2])
    classes.append("window-step:%g" % ws)
    nontrivial = shifted >= 2 and on_grid
    desc.update({"titratable": len(tit), "shifted": shifted, "printed_rows": len(printed)})
    import hashlib
    return util.finish(case, viol, counts, classes, nontrivial, desc,
                       digest=hashlib.sha1((text + repr(grid) + repr(window)).encode()).hexdigest()[:16])


def verdict(tier, counts, classes, nontrivial, results):
    reasons = []
    if counts.get("grid_contract", 0) == 0:
        reasons.append("contract on make_grid never evaluated")
    if counts.get("linkage_points", 0) == 0:
        reasons.append("no linkage point evaluated")
    if counts.get("window_rows", 0) == 0:
        reasons.append("no printed folding row parsed")
    if nontrivial < 5:
        reasons.append("fewer than 5 non-trivial cases")
    return reasons
