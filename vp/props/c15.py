"""C15 - the coupling analysis observes without disturbing."""
import random

RULE = ("each case runs a structure (repository proteins, cut-outs centred on a titratable residue, "
        "chimeras) twice in the same process: with the non-covalent coupling analysis enabled and "
        "with it disabled (NCCG.do_prot_stat=False); records must be equal apart from the coupled "
        "lists; the search is also called directly on every finished conformation (default arguments) and "
        "must change nothing. Contract around every is_coupled_protonation_state_probability call: determinant "
        "multisets (type, partner, label, value) and pKa of both groups are identical at exit; the "
        "contract counts how many calls really executed a swap. Symmetry of the coupled lists and "
        "star <=> partner are read from the live groups of every conformation. Non-trivial: >= 1 "
        "swap executed in the case; distinct = distinct structure digests.")
RULE = RULE + ' Round 8: in 40 % of the cases an observer renders every determinant row of a conformation right before its search starts.'
RULE = RULE + ' Rounds 9-12: two copies of one ligand at one group; the star clause on the written file; clusters in several models with mutants.'
ASSUMPTIONS = ["-d (display of alternative states) is excluded from the on/off comparison, as the statement says; "
               "the restore contract still applies to the probability function it calls"]
TIMEOUT = {"quick": 1800, "thorough": 10800}


def generate(tier, seed):
    from .. import sources
    cases = []
    for name in sources.PROTEINS + sources.SMALL + sources.MULTICONF:
        cases.append({"kind": "file", "file": name, "seed": "%d:%s" % (seed, name),
                      "cost": 100 if name in sources.PROTEINS else 4})
    for name in sources.PROTEINS:
        cases.append({"kind": "file", "file": name, "opt": "-d", "seed": "%d:%s:d" % (seed, name), "cost": 100})
        cases.append({"kind": "file", "file": name, "variant": 1, "seed": "%d:%s:v" % (seed, name), "cost": 120})
    n = 400 if tier == "quick" else 20000
    for k in range(n):
        cases.append({"kind": "cutout", "seed": "%d:cut:%d" % (seed, k), "cost": 12})
    n = 100 if tier == "quick" else 4000
    for k in range(n):
        cases.append({"kind": "samelabel", "seed": "%d:sl:%d" % (seed, k), "cost": 14})
    n = 120 if tier == "quick" else 4000
    for k in range(n):
        cases.append({"kind": "ligandcopies", "seed": "%d:lc:%d" % (seed, k), "cost": 14})
    return cases


def ligand_copies_cutout(rng, classes):
    """Two copies of one titratable ligand (one residue name, one chain, two residue numbers: one printed
    label) placed next to the same ionizable group, so that a group can have two coupled partners that
    only the residue number tells apart."""
    from .. import fragments
    from .c16 import titratable_anchor
    recs = cluster_cutout(rng)
    fname = rng.choice(("acetate", "acetate", "methylamine", "ammonium", "acetamidinium", "methylguanidinium", "pyridine"))
    anchor = titratable_anchor(recs, rng)
    chain = rng.choice(("L", anchor.chain if anchor is not None else "L"))
    placed = 0
    for k_ in range(2):
        frag, _e, _d = fragments.place_near(recs, fname, rng, anchor=anchor, dist_A=rng.choice((2.8, 3.0, 3.3, 3.8)),
                                            chain=chain, resnum=274 + k_, min_clear_A=2.55)
        if frag:
            recs = recs + frag
            placed += 1
    if placed == 2:
        classes.append("two-copies-of-a-ligand-at-one-group")
    return recs


def setup(tier):
    from .. import contracts
    from ..monitors import swap
    contracts.import_all_propka()
    swap.install()


def cluster_cutout(rng):
    """Cut-out centred on a titratable residue that has another titratable residue within 6 A."""
    import numpy as np
    from .. import sources
    recs = sources.no_water(sources.repo_recs(rng.choice(sources.PROTEINS)))
    rl = sources.residue_list(recs)
    tit = [i for i, r in enumerate(rl) if r.key[0] == "ATOM  " and r.key[4] in ("ASP", "GLU", "HIS", "TYR", "LYS", "CYS", "ARG")]
    for _ in range(30):
        i = rng.choice(tit)
        a = np.array([(x.x, x.y, x.z) for x in rl[i].atoms])
        for j in tit:
            if j != i:
                b = np.array([(x.x, x.y, x.z) for x in rl[j].atoms])
                if ((a[:, None, :] - b[None, :, :]) ** 2).sum(axis=2).min() < 4500 ** 2:
                    out, _ = sources.cutout(recs, rng, rng.choice((9, 11, 13, 16)), center=i)
                    return out
    out, _ = sources.cutout(recs, rng, 12)
    return out


_PAIRS = None


def same_type_neighbours():
    """(file, index) of residues followed in the chain by a residue of the same ionizable type."""
    global _PAIRS
    if _PAIRS is None:
        from .. import sources
        _PAIRS = []
        for name in sources.PROTEINS:
            rl = sources.residue_list(sources.no_water(sources.repo_recs(name)))
            for i in range(len(rl) - 1):
                a, b = rl[i], rl[i + 1]
                if (a.key[0] == b.key[0] == "ATOM  " and a.key[1] == b.key[1] and a.key[4] == b.key[4] and not b.ter_before
                        and a.key[4] in ("ASP", "GLU", "LYS", "ARG", "HIS", "TYR", "CYS") and a.key[3] == b.key[3] == " "):
                    _PAIRS.append((name, i))
    return _PAIRS


def same_label_twin_cutout(rng):
    """Cut-out around two consecutive residues of the same ionizable type, the second renumbered
    as an insertion-coded twin of the first: both get the same printed label, so their partners
    hold several determinants towards one partner label."""
    from .. import sources
    name, i = rng.choice(same_type_neighbours())
    full = sources.no_water(sources.repo_recs(name))
    rl = sources.residue_list(full)
    first, second = rl[i], rl[i + 1]
    out = []
    for r in full:
        if r.raw is None and (r.tag, r.chain, r.resnum, r.icode, r.resn) == second.key:
            r = r.copy()
            r.resnum, r.icode = first.key[2], "A"
        out.append(r)
    cut, _ = sources.cutout(out, rng, rng.choice((10, 13, 16)), center=i)
    return cut


def run_case(case, tier):
    from .. import contracts, obs, pdbio, sources, util
    from ..monitors import swap
    import propka.coupled_groups as cg
    rng = random.Random(case["seed"])
    viol, counts, classes = [], {}, []
    if case["kind"] == "file":
        recs = sources.repo_recs(case["file"])
    elif case["kind"] == "samelabel":
        recs = same_label_twin_cutout(rng)
        classes.append("same-label-twins")
    elif case["kind"] == "ligandcopies":
        recs = ligand_copies_cutout(rng, classes)
    elif rng.random() < 0.8:
        recs = cluster_cutout(rng)
    else:
        recs, _ = sources.chimera(rng)
    multi_ = case["kind"] == "cutout" and rng.random() < 0.15 and not any(r.raw is None and r.icode != " " for r in recs)
    if multi_:
        # several models / alternate locations of the cluster, with mutants and missing pieces: a pair may be coupled
        # in one conformation and not (or not exist) in another - every conformation keeps its own marks
        from .. import multiconf
        # (protein atoms only: jittered copies of large fused-ring ligands send the package's ring search into
        # exponential time)
        recs, _dm = multiconf.build(rng, base=[r for r in sources.no_water(recs) if r.raw is not None or r.tag == "ATOM  "])
        classes.append("conformations-that-differ")
    extra = []
    if case["kind"] != "file" or case.get("variant"):
        u = rng.random()
        if u < 0.3 and not multi_ and case["kind"] != "ligandcopies":
            # (not together with the two ligand copies: two residues that differ in the insertion code only compare
            # equal by label - the known finding - and a partner list that holds one of them refuses the other)
            # insertion-coded twins: several determinants of one group carry the same partner label
            from .c06 import make_twins
            recs, ntw = make_twins(sources.no_water(recs), rng)
            if ntw:
                classes.append("twins")
        extra = rng.choice(([], [], [], ["--log-level", "DEBUG"], ["-q"], ["--protonate-all"], ["--log-level", "WARNING"],
                            ["-g", "0.0", "14.0", "0.5"]))
        if extra:
            classes.append("options:" + extra[0].lstrip("-") + (("=" + extra[1]) if extra[0] == "--log-level" else ""))
    text = pdbio.dump(recs)
    desc = sources.describe(recs)
    desc.update({"kind": case["kind"], "file": case.get("file")})
    if case.get("opt") == "-d":
        # display mode: only the restore contract and the symmetry clauses apply
        run = obs.run_single(text, ["-d"], keep_mol=True)
        counts["pipeline_runs"] = 1
        if run.mol is not None:
            swap.check_symmetry_and_stars(run.mol, viol, counts)
        classes.append("display-mode")
        nsw = contracts.COUNTS.get("coupling_contract_with_swap", 0)
        return util.finish(case, viol, counts, classes, nsw > 0, desc)
    # an observer that renders the rows of a conformation right before its search starts (what a caller
    # logging intermediate results does): reading a row changes nothing, and the rows read afterwards
    # are those of the finished state
    import propka.conformation_container as cc
    observer = rng.random() < 0.4
    orig_search = cc.ConformationContainer.find_non_covalently_coupled_groups
    if observer:
        def watched(self, *a, **k):
            for g_ in self.groups:
                g_.get_determinant_string(False)
                g_.get_determinant_string(True)
            counts["rows_read_before_search"] = counts.get("rows_read_before_search", 0) + len(self.groups)
            return orig_search(self, *a, **k)
        cc.ConformationContainer.find_non_covalently_coupled_groups = watched
        classes.append("rows-read-before-the-search")
    try:
        on = obs.run_single(text, extra, keep_mol=True)
    finally:
        cc.ConformationContainer.find_non_covalently_coupled_groups = orig_search
    nsw = contracts.COUNTS.get("coupling_contract_with_swap", 0)
    if on.mol is not None:
        swap.check_symmetry_and_stars(on.mol, viol, counts)
    old = cg.NCCG.do_prot_stat
    try:
        cg.NCCG.do_prot_stat = False
        off = obs.run_single(text, extra)
    finally:
        cg.NCCG.do_prot_stat = old
    counts["pipeline_runs"] = 2
    if on.exc or off.exc:
        if on.exc_type != off.exc_type:
            viol.append({"cls": "analysis-changes-outcome", "msg": "exception %r with analysis, %r without" % (on.exc, off.exc)})
        classes.append("raised")
        return util.finish(case, viol, counts, classes, False, desc, inconclusive="raised")
    # the search called directly on a conformation (its public method, default arguments: no display
    # requested) must leave the finished results as they are
    if on.mol is not None:
        for cname in on.rec["names"][:2]:
            conf = on.mol.conformations[cname]
            before = obs.conformation_record(conf)
            conf.find_non_covalently_coupled_groups()
            after = obs.conformation_record(conf)
            counts["direct_search_calls"] = counts.get("direct_search_calls", 0) + 1
            d = obs.compare_confs(before, after, tol=0.0)
            if d:
                viol.append({"cls": "direct-search-changes-results", "msg": "%s.find_non_covalently_coupled_groups() changed: %s" % (cname, obs.brief(d, 4))})
    diffs = obs.compare_runs(on, off, tol=1e-9)
    counts["onoff_comparisons"] = 1
    if diffs:
        viol.append({"cls": "analysis-changes-results", "msg": "records differ with/without the coupling analysis: %s" % obs.brief(diffs, 4)})
    # the disabled run must not have registered couplings at all
    ncoupled = sum(1 for g in on.rec["confs"][on.rec["names"][0]]["groups"] if g["ncov"])
    for g in on.rec["confs"][on.rec["names"][0]]["groups"]:
        if g["titratable"]:
            for t in ("sidechain", "coulomb"):
                labs = [d[2] for d in g["det"][t]]
                if len(labs) != len(set(labs)):
                    classes.append("several-determinants-towards-one-partner-label")
    if ncoupled:
        classes.append("coupling-registered")
    if nsw:
        classes.append("swap-executed")
    # the written file (rows of the averaged container): with one conformation, a row is starred exactly when
    # that conformation's group has a coupled partner
    if len(on.rec["names"]) == 1 and on.text:
        conf1 = on.rec["confs"][on.rec["names"][0]]
        bylab = {}
        for g in conf1["groups"]:
            bylab.setdefault(g["label"], []).append(g)
        for row in obs.parse_det_rows(obs.parse_pka_text(on.text)["det_rows"]):
            gs = bylab.get(row["label"], [])
            if len(gs) != 1:
                continue
            counts["file_rows_star_checked"] = counts.get("file_rows_star_checked", 0) + 1
            if row["star"] != bool(gs[0]["ncov"]):
                viol.append({"cls": "star-mismatch", "msg": "written file: row of %s starred=%r but the group has %d coupled partner(s) (%d covalently coupled)" % (
                    row["label"], row["star"], len(gs[0]["ncov"]), len(gs[0]["cov"]))})
                break
    # text: apart from stars and the coupled-residues notice the files must agree
    ta = obs.parse_pka_text(on.text)
    tb = obs.parse_pka_text(off.text)
    # the swap appends the moved determinants, so their order inside a column may change;
    # values and labels must not
    def norm(rows):
        out = []
        for g in obs.parse_det_rows(rows):
            out.append((g["label"], g["pka"], g["buried"], g["E_vol"], g["n_vol"], g["E_loc"], g["n_loc"],
                        tuple(sorted(g["cells"]["sidechain"])), tuple(sorted(g["cells"]["backbone"])),
                        tuple(sorted(g["cells"]["coulomb"]))))
        return out
    if norm(ta["det_rows"]) != norm(tb["det_rows"]) or ta["summary"] != tb["summary"] \
            or ta["folding"] != tb["folding"] or ta["charge"] != tb["charge"] or ta["pi"] != tb["pi"]:
        viol.append({"cls": "analysis-changes-results", "msg": "written .pka differs (beyond the stars and the order of determinants) with/without the analysis"})
    desc.update({"swaps": nsw, "coupled_groups": ncoupled})
    import hashlib
    return util.finish(case, viol, counts, classes, nsw > 0, desc, digest=hashlib.sha1(text.encode()).hexdigest()[:16])


def verdict(tier, counts, classes, nontrivial, results):
    reasons = []
    if counts.get("coupling_contract", 0) == 0:
        reasons.append("restore contract never evaluated")
    if counts.get("coupling_contract_with_swap", 0) == 0:
        reasons.append("no call executed a swap")
    if "coupling-registered" not in classes:
        reasons.append("no coupling registered in any run")
    if nontrivial < 5:
        reasons.append("fewer than 5 non-trivial cases")
    return reasons
