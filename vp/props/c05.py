"""C05 - parts of a structure beyond interaction range do not influence each other."""
import random

RULE = ("each case takes two parts A and B (repository proteins, cut-outs, chimeras; B may be a copy of A), "
        "gives B unused chain identifiers, rotates it by a lattice rotation and translates it along a "
        "random lattice direction until the minimum inter-atomic distance is d in {25.001, 26, 30, 50, 100, "
        "500, 999, 1000.5, 1500, 5000, as far as the coordinate field allows} A (exact integer arithmetic), "
        "and runs A alone, B alone, A+TER+B and B+TER+A; in 30 % of the built cases B keeps chain identifiers "
        "that A uses (numbers distinct), in 30 % both parts carry the same kind of ligand, and parts that hit "
        "the 10-sweep cap are also combined with whole proteins. Oracle: every group record of each part inside "
        "either union equals its record alone (1e-7), for every conformation and AVR, and no run raises. "
        "Non-trivial: both parts have >= 2 titratable groups and >= 1 Coulomb determinant each; "
        "distinct = distinct (digest of A, digest of B, d)."
        " 25 % of the built cases run all four executions with a parameter file (common charge centres, shared determinants, penalised groups kept).")
RULE = RULE + ' Round 13: parts with coupled groups under -d, and parts carrying (displaced) hydrogens under -k, each with one state of its own next to a part with alternate-location labels.'
RULE = RULE + ' Round 8: 25 % of the unions are joined cat-style (MASTER / END / HEADER / CRYST1 records between the parts).'
ASSUMPTIONS = ["parts taken from files are reduced to their first alternate location; alternate locations are then added "
               "under controlled labels (15 % of the built cases)"]
TIMEOUT = {"quick": 2400, "thorough": 14400}
DIST = (25.001, 25.001, 26.0, 30.0, 50.0, 100.0, 500.0, 999.0, 1000.5, 1500.0, 5000.0, 10900.0)


def generate(tier, seed):
    from .. import sources
    cases = []
    k = 0
    for a in ("1HPX.pdb", "3SGB.pdb"):
        for b in ("1FTJ-Chain-A.pdb", a):
            for d in ((30.0, 1200.0) if tier == "quick" else DIST):
                cases.append({"kind": "files", "a": a, "b": b, "d": d, "seed": "%d:f:%d" % (seed, k), "cost": 500})
                k += 1
    for d in ((40.0,) if tier == "quick" else (25.001, 40.0, 1100.0)):
        cases.append({"kind": "files", "a": "4DFR.pdb", "b": "4DFR.pdb", "d": d, "seed": "%d:f:%d" % (seed, k), "cost": 900})
        k += 1
    n = 300 if tier == "quick" else 20000
    for i in range(n):
        cases.append({"kind": "built", "d": DIST[i % len(DIST)], "seed": "%d:b:%d" % (seed, i), "cost": 50})
    # a cluster of free amino acids tuned to a near-tie of two glutamates: its solver trajectory has a sweep
    # in which nothing moves by more than 0.003 between two sweeps with large moves (vp/data/near_tie_cluster.pdb,
    # taken from the demonstration of seeded change C05-j); next to parts that need more / fewer sweeps
    for i, other in enumerate(("3SGB.pdb", "1FTJ-Chain-A.pdb", "capped-cluster", "1HPX.pdb")[:(2 if tier == "quick" else 4)]):
        cases.append({"kind": "near-tie", "other": other, "d": (40.0, 70.0, 300.0, 1100.0)[i], "seed": "%d:nt:%d" % (seed, i), "cost": 300})
    # -d (alternative states of coupled groups are kept) on a part with coupled groups and a single state of its
    # own, next to a part whose alternate-location labels give the union several conformations: the part's
    # groups must come out of every conformation of the union as they do alone (round 13, seeded change C05-w)
    for i in range(6 if tier == "quick" else 120):
        cases.append({"kind": "swapd", "d": DIST[i % len(DIST)], "seed": "%d:sd:%d" % (seed, i), "cost": 400 if i % 2 == 0 else 80})
    # -k (hydrogens of the file are kept) on a part that carries hydrogens and has one state of its own, next to a
    # part with alternate-location labels: the conformations the other part creates must hold this part's
    # hydrogens too (round 13, seeded changes C05-x / C04-w)
    for i in range(6 if tier == "quick" else 120):
        cases.append({"kind": "keeph", "d": DIST[i % len(DIST)], "seed": "%d:kh:%d" % (seed, i), "cost": 80})
    return cases


def setup(tier):
    from .. import contracts
    contracts.import_all_propka()


def single_conf(recs):
    out = []
    for r in recs:
        if r.raw is None:
            if r.alt not in (" ", "A"):
                continue
            if r.alt != " ":
                r = r.copy()
                r.alt = " "
        out.append(r)
    return out


def add_altlocs(part, labels, rng):
    """Side-chain atoms of 1-3 residues written once per label, later states moved by up to 0.3 A."""
    if not labels:
        return part
    ids = sorted({(r.chain, r.resnum, r.icode) for r in part if r.raw is None and r.tag == "ATOM  "})
    if not ids:
        return part
    chosen = set(rng.sample(ids, min(len(ids), rng.choice((1, 2, 3)))))
    out = []
    for r in part:
        if r.raw is None and (r.chain, r.resnum, r.icode) in chosen and r.aname() not in ("N", "CA", "C", "O"):
            for k, lab in enumerate(labels):
                c = r.copy()
                c.alt = lab
                if k:
                    c.x += rng.randrange(-300, 301)
                    c.y += rng.randrange(-300, 301)
                    c.z += rng.randrange(-300, 301)
                out.append(c)
        else:
            out.append(r)
    return out


def place(a, b, d_A, rng):
    """Move b so that the minimum distance to a is >= d (and close to it). Returns (b', min distance)."""
    import math
    from .. import pdbio
    d = int(round(d_A * 1000))
    rot = rng.choice(pdbio.ROTATIONS)
    b = pdbio.move(b, rot, (0, 0, 0))
    axis = rng.randrange(3)
    sign = rng.choice((1, -1))
    ba, bb = pdbio.bbox(a), pdbio.bbox(b)
    t = [0, 0, 0]
    # centre b on a in the other two axes, then separate along `axis` by the bounding boxes
    for k in range(3):
        t[k] = (ba[k] + ba[k + 3]) // 2 - (bb[k] + bb[k + 3]) // 2
    if sign > 0:
        t[axis] = ba[axis + 3] + d - bb[axis]
    else:
        t[axis] = ba[axis] - d - bb[axis + 3]
    moved = pdbio.move(b, pdbio.IDENTITY, tuple(t))
    # shrink the gap while the exact minimum distance stays >= d
    for _ in range(12):
        m2 = pdbio.min_distance2(a, moved)
        m = math.isqrt(m2)
        slack = m - d
        if slack <= 200:
            break
        t[axis] -= sign * (slack - 50)
        moved = pdbio.move(b, pdbio.IDENTITY, tuple(t))
    m2 = pdbio.min_distance2(a, moved)
    if m2 < d * d:
        t[axis] += sign * 400
        moved = pdbio.move(b, pdbio.IDENTITY, tuple(t))
        m2 = pdbio.min_distance2(a, moved)
    # keep everything inside the coordinate field: shift both parts if necessary
    return moved, m2


def fit_both(a, b):
    from .. import pdbio
    box = pdbio.bbox(a + b)
    shift = [0, 0, 0]
    for k in range(3):
        if box[k] < pdbio.FIELD_MIN:
            shift[k] = pdbio.FIELD_MIN - box[k]
        elif box[k + 3] > pdbio.FIELD_MAX:
            shift[k] = pdbio.FIELD_MAX - box[k + 3]
    if any(shift):
        a = pdbio.move(a, pdbio.IDENTITY, tuple(shift))
        b = pdbio.move(b, pdbio.IDENTITY, tuple(shift))
    return a, b, pdbio.fits(a + b)


def relabel_chains(b, used, rng):
    pool = [c for c in "ABCDEFGHIJKLMNOPQRSTUVWXYZabcdefghijklmnopqrstuvwxyz0123456789" if c not in used]
    m = {}
    out = []
    for r in b:
        if r.raw is None:
            if r.chain not in m:
                m[r.chain] = pool.pop(rng.randrange(len(pool)))
            r = r.copy()
            r.chain = m[r.chain]
        out.append(r)
    return out


_ITER_REG = []


def _register_iteratives():
    """Record every propka.iterative.Iterative object created from now on (their pka_iter lists hold
    the full-precision trajectory of the solver; the DEBUG table prints two decimals only)."""
    import propka.iterative as pi
    if getattr(pi.Iterative.__init__, "_vp", False):
        return
    orig = pi.Iterative.__init__

    def init(self, *a, **k):
        orig(self, *a, **k)
        _ITER_REG.append(self)
    init._vp = True
    pi.Iterative.__init__ = init


def part_with_small_last_step(rng, tries=150):
    """A residue cluster or cut-out whose solver trajectory ends with a sweep in which every group moves
    by less than 0.005 (but some group moves): a looser convergence test would stop one sweep earlier
    when the part is alone, and not when a distant part keeps the loop going."""
    from .. import obs, pdbio, sources
    _register_iteratives()
    for _ in range(tries):
        recs = sources.residue_cluster(rng)[0] if rng.random() < 0.6 else sources.random_small_structure(rng, 80, 500)
        del _ITER_REG[:]
        r = obs.run_single(pdbio.dump(recs), write_pka=False)
        if r.exc or not _ITER_REG:
            continue
        n = max(len(it.pka_iter) for it in _ITER_REG)
        last = None
        for i in range(1, n):
            step = max(abs(it.pka_iter[i] - it.pka_iter[i - 1]) for it in _ITER_REG if len(it.pka_iter) > i)
            if step > 0:
                last = step
        if last is not None and last < 0.005:
            del _ITER_REG[:]
            return recs
    del _ITER_REG[:]
    return None


def run_case(case, tier):
    import math
    from .. import obs, pdbio, sources, util
    rng = random.Random(case["seed"])
    viol, counts, classes = [], {}, []
    if case["kind"] == "files":
        a = sources.full_protein(case["a"])
        b = sources.full_protein(case["b"])
    elif case["kind"] == "near-tie":
        import os
        a = pdbio.parse(open(os.path.join(os.path.dirname(os.path.dirname(os.path.abspath(__file__))), "data", "near_tie_cluster.pdb")).read())
        a = [r for r in a if r.raw is None]
        if case["other"] == "capped-cluster":
            b = None
            for _ in range(60):
                cl, cd = sources.residue_cluster(rng)
                probe = obs.run_single(pdbio.dump(cl), write_pka=False, debug_iterative=True)
                if not probe.exc and any("did not converge" in m for (_, _, m) in probe.logs or []):
                    b = cl
                    break
            if b is None:
                b = sources.full_protein("3SGB.pdb")
        else:
            b = sources.full_protein(case["other"])
        classes.append("near-tie-cluster")
    elif case["kind"] == "keeph":
        from .c15 import cluster_cutout
        a = cluster_cutout(rng) if rng.random() < 0.5 else sources.random_small_structure(rng, 80, 500)
        b = sources.random_small_structure(rng, 80, 500)
        classes.append("kept-hydrogens-next-to-foreign-alt-locs")
    elif case["kind"] == "swapd":
        from .c15 import cluster_cutout
        a = sources.full_protein("1HPX.pdb") if case["cost"] > 100 else cluster_cutout(rng)
        b = sources.random_small_structure(rng, 80, 500)
        classes.append("swap-display-next-to-foreign-alt-locs")
    else:
        def part():
            u = rng.random()
            if u < 0.6:
                return sources.random_small_structure(rng, 80, 700)
            if u < 0.9:
                return sources.chimera(rng)[0]
            return sources.no_water(sources.repo_recs(rng.choice(sources.SMALL)))
        a = part()
        b = [r.copy() if r.raw is None else r for r in a] if rng.random() < 0.25 else part()
        if rng.random() < 0.2:
            # a part whose iterative solver does not converge within its 10 sweeps (searched for)
            for _ in range(40):
                cl, cd = sources.residue_cluster(rng)
                probe = obs.run_single(pdbio.dump(cl), write_pka=False, debug_iterative=True)
                if not probe.exc and any("did not converge" in m for (_, _, m) in probe.logs or []):
                    break
            if rng.random() < 0.5:
                a = cl
            else:
                b = cl
            if rng.random() < 0.5:
                # ... next to a whole protein: many more iterative groups in the union than in the part
                big = sources.full_protein(rng.choice(("1FTJ-Chain-A.pdb", "3SGB.pdb", "1HPX.pdb")))
                if a is cl:
                    b = big
                else:
                    a = big
                classes.append("capped-part-with-whole-protein")
        if rng.random() < 0.1:
            # a part whose last moving sweep is a tiny one, next to a part that needs more sweeps
            small = part_with_small_last_step(rng)
            if small is not None:
                a = small
                for _ in range(40):
                    cl, cd = sources.residue_cluster(rng)
                    probe = obs.run_single(pdbio.dump(cl), write_pka=False, debug_iterative=True)
                    if not probe.exc and any("did not converge" in m for (_, _, m) in probe.logs or []):
                        b = cl
                        break
                else:
                    b = sources.full_protein(rng.choice(("1FTJ-Chain-A.pdb", "3SGB.pdb")))
                classes.append("part-with-tiny-last-sweep")
        if rng.random() < 0.25:
            # an incomplete residue in one part: a carboxylate without its oxygens, an amide without N ...
            tgt = a if rng.random() < 0.5 else b
            cands = sorted({(r.chain, r.resnum, r.icode) for r in tgt if r.raw is None and r.resn in ("ASP", "GLU", "ASN", "GLN", "HIS")})
            if cands:
                kill = rng.choice(cands)
                names = {"ASP": ("OD1", "OD2"), "GLU": ("OE1", "OE2"), "ASN": ("ND2",), "GLN": ("NE2",), "HIS": ("ND1", "CE1", "NE2")}
                tgt[:] = [r for r in tgt if r.raw is not None or (r.chain, r.resnum, r.icode) != kill or r.aname() not in names.get(r.resn, ())]
                classes.append("part-with-incomplete-residue")
        if rng.random() < 0.4:
            # an ion in one of the parts (ions act on every titratable group within their range)
            from .. import fragments
            tgt = b if rng.random() < 0.7 else a
            frag, _, _ = fragments.place_near(tgt, "ion:" + rng.choice(sorted(fragments.IONS)), rng, dist_A=rng.uniform(3.0, 7.0),
                                               chain=rng.choice([r.chain for r in tgt if r.raw is None][:1]), resnum=990)
            if frag:
                tgt.extend(frag)
    a, b = single_conf(sources.no_hydrogens(a)), single_conf(sources.no_hydrogens(b))
    if not pdbio.atoms(a) or not pdbio.atoms(b):
        return util.finish(case, viol, counts, classes, False, {"skipped": "empty part"}, inconclusive="empty part")
    altsets = None
    if case["kind"] == "built" and rng.random() < 0.15 and sources.identities_unique(a) and sources.identities_unique(b):
        # (tests/pdb/1HPX-warn.pdb repeats an atom record; completing conformations keeps one of two coinciding
        # atoms, which is no matter of locality)
        # alternate locations in the parts: with the same labels in both (or in one part only) every
        # conformation of a part is the same alone and in the union; with different label sets the union has
        # conformations a part does not have on its own
        altsets = rng.choice((("AB", "AB"), ("AB", ""), ("", "ABC"), ("AB", "BC"), ("AB", "ABC"), ("12", "12")))
        a = add_altlocs(a, altsets[0], rng)
        b = add_altlocs(b, altsets[1], rng)
        classes.append("alt-locs:%s/%s" % (altsets[0] or "-", altsets[1] or "-"))
    if case["kind"] == "keeph":
        # the part gets the hydrogens the program itself places on it, written into the file
        probe = obs.run_single(pdbio.dump(a), write_pka=False, with_atoms=True)
        if probe.exc or len(probe.rec["names"]) != 1:
            return util.finish(case, viol, counts, classes, False, {"skipped": "probe"}, inconclusive="probe run of the part raised")
        # (each moved by up to 0.06 A per coordinate: hydrogens the program would place anew differ from them)
        a, nh, _ = sources.with_hydrogens(a, probe.rec["confs"][probe.rec["names"][0]]["hydrogens"],
                                          moved=lambda xyz: tuple(int(round(v * 1000)) + rng.randrange(-60, 61) for v in xyz))
        counts["hydrogens_written"] = nh
    if case["kind"] in ("swapd", "keeph") and sources.identities_unique(a) and sources.identities_unique(b):
        altsets = ("", rng.choice(("AB", "ABC", "12")))
        b = add_altlocs(b, altsets[1], rng)
        classes.append("alt-locs:-/%s" % altsets[1])
    used = {r.chain for r in a if r.raw is None}
    same_ligand = None
    if case["kind"] == "built" and rng.random() < 0.3:
        # the same kind of ligand molecule in both parts (after the chain decision below possibly in
        # the same chain, under another residue number: its groups then carry identical labels)
        from .. import fragments
        same_ligand = rng.choice(sorted(fragments.FRAGMENTS))
        for tgt, num in ((a, 901), (b, 902)):
            ch = [r.chain for r in tgt if r.raw is None][0]
            frag, _, _ = fragments.place_near(tgt, same_ligand, rng, dist_A=rng.uniform(3.0, 8.0), chain=ch, resnum=num)
            if frag:
                tgt.extend(frag)
        classes.append("same-ligand-in-both-parts")
    if case["kind"] == "built" and rng.random() < 0.3:
        # B keeps chain identifiers that A uses too; its residues get numbers A does not use
        ach = sorted(used)
        m = {}
        top = max([r.resnum for r in a if r.raw is None] + [0])
        off = top + 1000 - min(r.resnum for r in b if r.raw is None)
        if max(r.resnum for r in b if r.raw is None) + off <= 9999:
            nb = []
            for r in b:
                if r.raw is None:
                    if r.chain not in m:
                        m[r.chain] = ach[len(m) % len(ach)]
                    r = r.copy()
                    r.resnum += off + 2000 * (list(m).index(r.chain) // len(ach))
                    r.chain = m[r.chain]
                nb.append(r)
            if max(r.resnum for r in nb if r.raw is None) <= 9999 and sources.identities_unique(a + nb):
                b = nb
                classes.append("parts-share-chain-identifiers")
    if "parts-share-chain-identifiers" not in classes:
        b = relabel_chains(b, used, rng)
    b, m2 = place(a, b, case["d"], rng)
    a, b, ok = fit_both(a, b)
    d_real = math.sqrt(m2) / 1000.0
    desc = {"kind": case["kind"], "d_requested": case["d"], "min_distance": round(d_real, 3),
            "atoms_a": len(pdbio.atoms(a)), "atoms_b": len(pdbio.atoms(b)), "a": case.get("a"), "b": case.get("b")}
    if not ok:
        # the pair does not fit the coordinate field at this separation: use the largest that fits
        return util.finish(case, viol, counts, classes, False, desc, inconclusive="does not fit the coordinate field")
    if m2 < 25000 ** 2 + 1:
        return util.finish(case, viol, counts, classes, False, desc, inconclusive="placement failed")
    ter = [pdbio.raw("TER")]
    if case["kind"] == "built" and rng.random() < 0.3:
        # number coincidence across the junction: the first residue of one part gets the number of the last
        # residue of the other (different chains; with no TER between them only the chain tells them apart)
        ats_a = [r for r in a if r.raw is None and r.tag == "ATOM  "]
        ats_b = [r for r in b if r.raw is None and r.tag == "ATOM  "]
        if ats_a and ats_b:
            off = (ats_a[-1].resnum - ats_b[0].resnum) if rng.random() < 0.5 else (ats_a[0].resnum - ats_b[-1].resnum)
            nums = [r.resnum + off for r in b if r.raw is None]
            if nums and min(nums) >= -999 and max(nums) <= 9999:
                nb = []
                for r in b:
                    if r.raw is None:
                        r = r.copy()
                        r.resnum += off
                    nb.append(r)
                if sources.identities_unique(a + ter + nb):
                    b = nb
                    classes.append("junction-number-coincidence")
    ta, tb = pdbio.dump(a), pdbio.dump(b)

    def ends_with_terminal_oxygen(part):
        at = [r for r in part if r.raw is None]
        if not at or at[-1].tag != "ATOM  ":
            return False
        lastres = (at[-1].chain, at[-1].resnum, at[-1].icode)
        return any((r.chain, r.resnum, r.icode) == lastres and r.aname() in ("OXT", "O''") for r in at)
    # a chain that ends with a terminal oxygen needs no TER record after it: the next part still starts a chain
    sep_ab = [] if (ends_with_terminal_oxygen(a) and rng.random() < 0.5) else ter
    sep_ba = [] if (ends_with_terminal_oxygen(b) and rng.random() < 0.5) else ter
    if not sep_ab or not sep_ba:
        classes.append("parts-joined-without-ter")
    if rng.random() < 0.25:
        # two entries joined the way `cat` does it: the first one's trailer (END, with or without MASTER) and the
        # second one's header stand between the parts; none of these records is one of the four that count
        cat = [pdbio.raw(x) for x in rng.choice((["END"], ["MASTER        0    0    0    0    0    0    0    0    0    0    0    0", "END"],
                                                 ["END   "], ["END", "HEADER    SECOND ENTRY", "CRYST1    1.000    1.000    1.000  90.00  90.00  90.00 P 1           1"]))]
        sep_ab, sep_ba = sep_ab + cat, sep_ba + cat
        classes.append("parts-joined-cat-style")
    tab, tba = pdbio.dump(a + sep_ab + b), pdbio.dump(b + sep_ba + a)
    xo = util.neutral_options(rng, families=("grid", "protonation", "keep", "swap-display"), classes=classes)
    if case["kind"] == "swapd":
        xo = ["-d"]
    if case["kind"] == "keeph":
        xo = ["-k"]
    if case["kind"] == "built" and rng.random() < 0.25:
        ov = {"common_charge_centre": rng.choice((1, 1, 0)), "shared_determinants": rng.choice((0, 1)),
              "remove_penalised_group": rng.choice((0, 1))}
        xo = xo + ["-p", util.write_cfg(ov)]
        classes.append("parameter-file" + (":common-charge-centre" if ov["common_charge_centre"] else ""))
    ra, rb = obs.run_single(ta, xo, write_pka=False, debug_iterative=True), obs.run_single(tb, xo, write_pka=False, debug_iterative=True)

    def sweeps(run):
        """Number of solver sweeps per conformation, read from the DEBUG records of propka.iterative."""
        n, capped = 0, False
        for (lg, lvl, msg) in run.logs or []:
            if lg == "propka.iterative":
                if msg.startswith("            ") and msg.split() and msg.split()[-1].isdigit():
                    n = max(n, int(msg.split()[-1]))
                if "did not converge" in msg:
                    capped = True
        return n, capped
    sa, sb = sweeps(ra), sweeps(rb)
    if sa[0] != sb[0]:
        classes.append("parts-need-different-sweep-counts")
    if sa[1] or sb[1]:
        classes.append("part-hits-the-10-sweep-cap")
    rab, rba = obs.run_single(tab, xo, write_pka=False), obs.run_single(tba, xo, write_pka=False)
    counts["pipeline_runs"] = 4
    box = pdbio.bbox(a + b)
    extent = max(box[3] - box[0], box[4] - box[1], box[5] - box[2]) / 1000.0
    desc["extent"] = round(extent, 1)
    if extent > 1000:
        classes.append("extent>1000A")
    for nm, r in (("A alone", ra), ("B alone", rb)):
        if r.exc:
            classes.append("part-raises")
            return util.finish(case, viol, counts, classes, False, desc, inconclusive="%s raised %s" % (nm, r.exc))
    for nm, r in (("A+B", rab), ("B+A", rba)):
        if r.exc:
            cls = "union-raises:" + r.exc_type + (":extent>1000A" if extent > 1000 else "")
            viol.append({"cls": cls, "msg": "%s raised %s although both parts run alone (min distance %.3f A, extent %.1f A)" % (
                nm, r.exc, d_real, extent)})
    if viol:
        return util.finish(case, viol, counts, classes, False, desc)
    for uname, ru in (("A+B", rab), ("B+A", rba)):
        for pname, rp in (("A", ra), ("B", rb)):
            same_confs = list(rp.rec["names"]) == list(ru.rec["names"])
            for cname in list(rp.rec["names"]) + ["AVR"]:
                if cname not in ru.rec["confs"]:
                    viol.append({"cls": "union-loses-conformation", "msg": "conformation %s of part %s has no counterpart in %s (%r)" % (
                        cname, pname, uname, ru.rec["names"])})
                    continue
                ip, _ = obs.index_groups(rp.rec["confs"][cname])
                iu, _ = obs.index_groups(ru.rec["confs"][cname])
                for k, g in ip.items():
                    counts["groups_compared"] = counts.get("groups_compared", 0) + 1
                    h = iu.get(k)
                    if h is None:
                        from .c06 import has_twins
                        lost_cls = "union-loses-group"
                        if len(ru.rec["names"]) > 1 and has_twins(a + b):
                            lost_cls = "twins:average-in-a-union-with-more-conformations"
                        viol.append({"cls": lost_cls, "msg": "%s: %s of part %s missing in %s" % (cname, g["label"], pname, uname)})
                        continue
                    diffs = obs.compare_groups(g, h, tol=1e-7)
                    if diffs:
                        cls = "distant-part-influences"
                        from .c06 import has_twins
                        if len(ru.rec["names"]) > 1 and has_twins(a + b):
                            # several conformations and residues that share chain and number up to the insertion code
                            # (also across the two parts when they share chain identifiers): completing the
                            # conformations merges them (known finding icode-twins-merged)
                            cls = "twins:average-in-a-union-with-more-conformations"
                        elif cname == "AVR" and not same_confs and has_twins(a if pname == "A" else b):
                            # the other part's labels add conformations; completing them loses atoms of residues
                            # that share a number with an insertion-coded neighbour (known finding icode-twins-merged)
                            cls = "twins:average-in-a-union-with-more-conformations"
                        elif cname == "AVR" and not same_confs and len(rp.rec["names"]) > 1:
                            # the union has conformations this part does not have alone (created by the other part's
                            # alternate-location labels); the part's average is then taken over more conformations
                            # (a part with a single state of its own is unaffected: the mean of copies is the copy)
                            cls = "distant-alt-loc-labels-change-the-average"
                        viol.append({"cls": cls, "msg": "%s %s (part %s, conformations %r) in %s (conformations %r) at %.3f A: %s" % (
                            cname, g["label"], pname, rp.rec["names"], uname, ru.rec["names"], d_real, obs.brief(diffs, 3))})
            # nothing extra in the union
        nu = len(ru.rec["confs"]["AVR"]["groups"])
        if nu != len(ra.rec["confs"]["AVR"]["groups"]) + len(rb.rec["confs"]["AVR"]["groups"]):
            viol.append({"cls": "union-group-count", "msg": "%s reports %d groups, parts report %d + %d" % (
                uname, nu, len(ra.rec["confs"]["AVR"]["groups"]), len(rb.rec["confs"]["AVR"]["groups"]))})

    def rich(r):
        gs = r.rec["confs"]["AVR"]["groups"]
        return sum(1 for g in gs if g["titratable"]) >= 2 and any(g["det"]["coulomb"] for g in gs)
    classes.append("d:%g" % case["d"])
    nontrivial = rich(ra) and rich(rb)
    import hashlib
    return util.finish(case, viol, counts, classes, nontrivial, desc,
                       digest=hashlib.sha1((ta + tb).encode()).hexdigest()[:16])


def verdict(tier, counts, classes, nontrivial, results):
    reasons = []
    if counts.get("groups_compared", 0) == 0:
        reasons.append("no group compared")
    if "extent>1000A" not in classes:
        reasons.append("no structure spanning more than 1000 A was run")
    if nontrivial < 8:
        reasons.append("fewer than 8 non-trivial cases")
    return reasons
