"""C12 - incomplete structures degrade gracefully."""
import itertools
import random

RULE = ("random cases delete atoms / whole residues / both at rates 1-90 % from cut-outs, chimeras and the "
        "small repository files; systematic cases take a real 3-5 residue segment around a residue of "
        "each of the 20 types (in the middle, as chain start, as chain end with OXT) and delete every "
        "single atom and every pair of atoms of that residue (all pairs up to 8 atoms, sampled beyond), "
        "or keep only k of its atoms; special cases: backbone only, side chains only, no termini, OXT "
        "without C, ring atoms missing, collinear leftovers; hetero cases delete atoms of the ligands "
        "and ions of 1HPX / 4DFR / 1FTJ cut-outs. Oracle: propka.run.single raises nothing, and the "
        "census of the truncated text (sites whose defining atom remains) equals the reported groups. "
        "Reject cases: empty / REMARK-only / water-only / hydrogen-only input and unknown extensions "
        "must raise ValueError and nothing else. Non-trivial: the deletion removed >= 1 atom that a "
        "group set-up or interaction branch reads (any non-CB heavy atom of a residue that forms a "
        "group, a backbone atom, or a ligand atom); distinct = distinct truncated texts."
        " 15 % of the truncations run with a parameter file that keeps penalised groups (then no site may be missing from the summary); 30 % carry neutral extra options.")
RULE = RULE + ' Round 8: 25 % of the truncations also cut records after column 54, 60 or 65.'
RULE = RULE + " Rounds 11-12: what is left of a truncated library ligand keeps its groups (three bonds clear of the deletion) and a lone nitrogen is an N30 group; every group's centre lies within 4 A of its defining atom; multi-conformation truncations with the completion check (earliest donor)."
ASSUMPTIONS = ["a truncation that leaves no atom the reader keeps belongs to the reject class"]
TIMEOUT = {"quick": 1800, "thorough": 14400}

TEMPLATE = {
    "ALA": ["N", "CA", "C", "O", "CB"],
    "ARG": ["N", "CA", "C", "O", "CB", "CG", "CD", "NE", "CZ", "NH1", "NH2"],
    "ASN": ["N", "CA", "C", "O", "CB", "CG", "OD1", "ND2"],
    "ASP": ["N", "CA", "C", "O", "CB", "CG", "OD1", "OD2"],
    "CYS": ["N", "CA", "C", "O", "CB", "SG"],
    "GLN": ["N", "CA", "C", "O", "CB", "CG", "CD", "OE1", "NE2"],
    "GLU": ["N", "CA", "C", "O", "CB", "CG", "CD", "OE1", "OE2"],
    "GLY": ["N", "CA", "C", "O"],
    "HIS": ["N", "CA", "C", "O", "CB", "CG", "ND1", "CD2", "CE1", "NE2"],
    "ILE": ["N", "CA", "C", "O", "CB", "CG1", "CG2", "CD1"],
    "LEU": ["N", "CA", "C", "O", "CB", "CG", "CD1", "CD2"],
    "LYS": ["N", "CA", "C", "O", "CB", "CG", "CD", "CE", "NZ"],
    "MET": ["N", "CA", "C", "O", "CB", "CG", "SD", "CE"],
    "PHE": ["N", "CA", "C", "O", "CB", "CG", "CD1", "CD2", "CE1", "CE2", "CZ"],
    "PRO": ["N", "CA", "C", "O", "CB", "CG", "CD"],
    "SER": ["N", "CA", "C", "O", "CB", "OG"],
    "THR": ["N", "CA", "C", "O", "CB", "OG1", "CG2"],
    "TRP": ["N", "CA", "C", "O", "CB", "CG", "CD1", "CD2", "NE1", "CE2", "CE3", "CZ2", "CZ3", "CH2"],
    "TYR": ["N", "CA", "C", "O", "CB", "CG", "CD1", "CD2", "CE1", "CE2", "CZ", "OH"],
    "VAL": ["N", "CA", "C", "O", "CB", "CG1", "CG2"],
}
GROUP_RESIDUES = ("ARG", "ASN", "ASP", "CYS", "GLN", "GLU", "HIS", "LYS", "SER", "THR", "TRP", "TYR")


def generate(tier, seed):
    cases = []
    nrand = 800 if tier == "quick" else 60000
    for k in range(nrand):
        cases.append({"kind": "random", "seed": "%d:r:%d" % (seed, k), "cost": 10})
    # systematic single and pair deletions
    rng = random.Random("%d:sys" % seed)
    for T, names in TEMPLATE.items():
        for pos in ("middle", "first", "last"):
            extra = ["OXT"] if pos == "last" else []
            allnames = names + extra
            singles = [[n] for n in allnames]
            pairs = [list(p) for p in itertools.combinations(allnames, 2)]
            if tier == "quick":
                pick_s = singles if pos == "middle" else rng.sample(singles, min(3, len(singles)))
                pick_p = rng.sample(pairs, min(4 if pos == "middle" else 1, len(pairs)))
            else:
                pick_s = singles
                pick_p = pairs if len(allnames) <= 9 else rng.sample(pairs, 40)
            for d in pick_s + pick_p:
                cases.append({"kind": "systematic", "res": T, "pos": pos, "delete": d,
                              "seed": "%d:s:%s:%s:%s" % (seed, T, pos, "-".join(d)), "cost": 4})
            for k in ((1, 2, 3) if tier == "thorough" else (rng.choice((1, 2, 3)),)):
                cases.append({"kind": "keepk", "res": T, "pos": pos, "k": k,
                              "seed": "%d:k:%s:%s:%d" % (seed, T, pos, k), "cost": 4})
    nsp = 60 if tier == "quick" else 7500
    for k in range(nsp):
        cases.append({"kind": "special", "mode": ("backbone-only", "sidechains-only", "no-termini", "oxt-without-c",
                                                  "ring-atoms-missing", "collinear")[k % 6],
                      "seed": "%d:sp:%d" % (seed, k), "cost": 8})
    nhet = 60 if tier == "quick" else 10000
    for k in range(nhet):
        cases.append({"kind": "hetero", "seed": "%d:h:%d" % (seed, k), "cost": 20})
    # systematic deletions inside every fragment of the ligand library and the DNA residues
    from .. import fragments
    for f in sorted(fragments.FRAGMENTS) + ["dna:DA", "dna:DG"]:
        resn, atoms, expect = fragments.FRAGMENTS[f] if f in fragments.FRAGMENTS else fragments.nucleotide(f[4:])
        names = [a[0] for a in atoms]
        singles = [[n] for n in names]
        pairs = [list(p) for p in itertools.combinations(names, 2)]
        pick = singles + (pairs if tier == "thorough" else rng.sample(pairs, min(2, len(pairs))))
        for d in pick:
            cases.append({"kind": "fragment", "frag": f, "delete": d, "seed": "%d:fr:%s:%s" % (seed, f, "-".join(d)), "cost": 6})
    # several conformations (models, alternate locations - labels out of order, missing 'A', three states), with atoms,
    # residues or chains missing from some of them: what is missing is completed from the earliest conformation
    # that has it, and every site is reported for the conformations that hold its atom
    for k in range(200 if tier == "quick" else 3000):
        cases.append({"kind": "conformations", "seed": "%d:mc:%d" % (seed, k), "cost": 25})
    for k, m in enumerate(("empty", "remark-only", "water-only", "hydrogen-only", "ext-xyz", "ext-none", "ext-gz",
                           "ext-upper", "ext-mixed", "blank-lines", "ext-pqr", "ter-only")):
        cases.append({"kind": "reject", "mode": m, "seed": "%d:rej:%d" % (seed, k), "cost": 2})
    return cases


def setup(tier):
    from .. import contracts
    contracts.import_all_propka()


_SEG_CACHE = {}


def find_segments(T):
    """(file, index) of residues of type T with both neighbours in the same chain."""
    from .. import sources
    if T in _SEG_CACHE:
        return _SEG_CACHE[T]
    out = []
    for name in sources.PROTEINS:
        rl = sources.residue_list(sources.full_protein(name))
        for i in range(2, len(rl) - 2):
            if rl[i].key[4] == T and rl[i].key[0] == "ATOM  " and all(
                    rl[j].key[0] == "ATOM  " and rl[j].key[1] == rl[i].key[1] and not rl[j].ter_before
                    for j in range(i - 1, i + 3)) and all(a.alt == " " for j in range(i - 2, i + 3) for a in rl[j].atoms):
                if {a.aname() for a in rl[i].atoms} >= set(TEMPLATE[T]):
                    out.append((name, i))
    _SEG_CACHE[T] = out
    return out


def build_segment(T, pos, rng):
    """Real segment with the residue of type T in the requested position; returns
    (records, identity of the target residue)."""
    from .. import pdbio, sources
    cands = find_segments(T)
    if not cands:
        return None, None
    name, i = rng.choice(cands)
    rl = sources.residue_list(sources.full_protein(name))
    if pos == "middle":
        idx = list(range(i - 2, i + 3))
    elif pos == "first":
        idx = list(range(i, i + 4))
    else:
        idx = list(range(i - 3, i + 1))
    idx = [j for j in idx if 0 <= j < len(rl) and rl[j].key[0] == "ATOM  " and rl[j].key[1] == rl[i].key[1]]
    res = []
    for j in idx:
        r = sources.Residue(rl[j].key)
        r.atoms = [a.copy() for a in rl[j].atoms]
        res.append(r)
    recs = sources.emit(res)
    if pos == "last":
        oxt = sources.add_oxt(res[-1].atoms)
        if oxt is not None:
            recs.append(oxt)
    # partners in space: residues within 6 A of the target (other than the segment itself)
    tgt = rl[i]
    return recs, (tgt.key[1], tgt.key[2], tgt.key[3])


def touches_group_branch(deleted):
    """deleted: list of (resname, atom name, tag)."""
    for resn, name, tag in deleted:
        if tag == "HETATM":
            return True
        if name in ("N", "C", "O", "CA", "OXT"):
            return True
        if resn in GROUP_RESIDUES and name != "CB":
            return True
    return False


def truncate_random(recs, rng):
    """Delete atom records / whole residues at a given rate; every other record (TER, MODEL,
    ENDMDL) stays where it is, so the result is a true subset of the input."""
    mode = rng.choice(("atoms", "residues", "mixed", "sidechain-tips", "backbone-atoms"))
    rate = rng.choice((0.01, 0.03, 0.1, 0.25, 0.5, 0.75, 0.9))
    out, deleted = [], []
    # residues = runs of consecutive atom records with one identity (per model)
    runs = []
    last = None
    for idx, r in enumerate(recs):
        if r.raw is not None:
            last = None
            continue
        key = (r.tag, r.chain, r.resnum, r.icode, r.resn)
        if key != last:
            runs.append([])
            last = key
        runs[-1].append(idx)
    kill = set()
    if mode in ("residues", "mixed"):
        for run in runs:
            if rng.random() < rate:
                kill.update(run)
    for idx, a in enumerate(recs):
        if a.raw is not None:
            out.append(a)
            continue
        dele = idx in kill
        if not dele and mode in ("atoms", "mixed") and rng.random() < rate:
            dele = True
        if not dele and mode == "sidechain-tips" and a.aname() not in ("N", "CA", "C", "O", "CB") and rng.random() < rate:
            dele = True
        if not dele and mode == "backbone-atoms" and a.aname() in ("N", "CA", "C", "O", "OXT") and rng.random() < rate:
            dele = True
        if dele:
            deleted.append((a.resn, a.aname(), a.tag))
        else:
            out.append(a)
    return out, deleted, "%s@%g" % (mode, rate)


def special(recs, rng, mode):
    from .. import pdbio, sources
    out, deleted = [], []
    if mode == "collinear":
        # leftovers that are close to a line: only the CA atoms (a true subset of the structure)
        for r in recs:
            if r.raw is not None:
                out.append(r)
            elif r.aname() == "CA" or (r.tag == "HETATM" and rng.random() < 0.3):
                out.append(r)
            else:
                deleted.append((r.resn, r.aname(), r.tag))
        return out, deleted
    for r in recs:
        if r.raw is not None:
            out.append(r)
            continue
        n = r.aname()
        dele = False
        if mode == "backbone-only":
            dele = n not in ("N", "CA", "C", "O", "OXT")
        elif mode == "sidechains-only":
            dele = n in ("N", "CA", "C", "O", "OXT")
        elif mode == "no-termini":
            dele = n in ("OXT",) or False
        elif mode == "oxt-without-c":
            dele = n == "C"
        elif mode == "ring-atoms-missing":
            dele = r.resn in ("HIS", "TRP", "TYR", "PHE", "PRO") and n not in ("N", "CA", "C", "O", "CB") and rng.random() < 0.4
        if dele:
            deleted.append((r.resn, n, r.tag))
        else:
            out.append(r)
    if mode == "no-termini":
        # drop the N of every chain start as well
        rl = sources.residue_list(out)
        kill = set()
        for i, res in enumerate(rl):
            if i == 0 or res.ter_before:
                for a in res.atoms:
                    if a.aname() == "N":
                        kill.add(id(a))
                        deleted.append((a.resn, "N", a.tag))
        out = [r for r in out if id(r) not in kill]
    if mode == "oxt-without-c":
        rl = sources.residue_list(out)
        if rl and not any(a.aname() == "OXT" for a in rl[-1].atoms):
            # add an OXT first (needs C), then drop C
            pass
    return out, deleted


def run_case(case, tier):
    from .. import obs, pdbio, sources, util
    from ..monitors import census_mon
    rng = random.Random(case["seed"])
    viol, counts, classes = [], {}, []
    kind = case["kind"]
    desc = {"kind": kind}
    name = "case.pdb"
    if kind == "reject":
        return reject_case(case, rng, viol, counts, classes)
    if kind == "random":
        u = rng.random()
        if u < 0.08:
            # two consecutive residues of one ionizable type numbered as insertion-code twins (one printed label)
            from .c15 import same_label_twin_cutout
            base = [r for r in same_label_twin_cutout(rng) if r.raw is not None or r.alt in (" ", "A")]
            classes.append("same-label-twins")
        elif u < 0.5:
            base = sources.random_small_structure(rng, 60, 700)
        elif u < 0.85:
            base, _ = sources.chimera(rng)
        else:
            base = sources.no_water(sources.repo_recs(rng.choice(sources.SMALL + sources.MULTICONF)))
        recs, deleted, how = truncate_random(base, rng)
        desc["how"] = how
    elif kind in ("systematic", "keepk"):
        base, resid = build_segment(case["res"], case["pos"], rng)
        if base is None:
            return util.finish(case, viol, counts, classes, False, desc, inconclusive="no segment for " + case["res"])
        tatoms = [a for a in base if a.raw is None and (a.chain, a.resnum, a.icode) == resid]
        if kind == "systematic":
            dele = set(case["delete"])
        else:
            keep = set(rng.sample([a.aname() for a in tatoms], min(case["k"], len(tatoms))))
            dele = {a.aname() for a in tatoms} - keep
        recs = [a for a in base if a.raw is not None or (a.chain, a.resnum, a.icode) != resid or a.aname() not in dele]
        deleted = [(case["res"], n, "ATOM  ") for n in dele if any(a.aname() == n for a in tatoms)]
        desc.update({"res": case["res"], "pos": case["pos"], "deleted": sorted(dele)})
    elif kind == "conformations":
        from .. import multiconf
        recs, dm_ = multiconf.build(rng)
        # a few more atoms removed, from any conformation
        deleted = []
        out_ = []
        for r in recs:
            if r.raw is None and r.aname() not in ("N", "CA", "C") and rng.random() < 0.02:
                deleted.append((r.resn, r.aname(), r.tag))
                continue
            out_.append(r)
        recs = out_
        desc.update({"how": "several conformations", "events": dm_.get("events")})
        classes.append("several-conformations")
    elif kind == "special":
        base = sources.random_small_structure(rng, 80, 500) if rng.random() < 0.6 else sources.chimera(rng)[0]
        if case["mode"] == "oxt-without-c":
            rl = sources.residue_list(base)
            last = [r for r in rl if r.key[0] == "ATOM  "]
            if last:
                oxt = sources.add_oxt(last[-1].atoms)
                if oxt is not None:
                    pos = base.index(last[-1].atoms[-1])
                    base = base[:pos + 1] + [oxt] + base[pos + 1:]
        recs, deleted = special(base, rng, case["mode"])
        desc["mode"] = case["mode"]
    elif kind == "fragment":
        from .. import fragments
        base = sources.random_small_structure(rng, 60, 400)
        frag, expect, dist = fragments.place_near(base, case["frag"], rng, dist_A=rng.uniform(3.0, 8.0))
        if frag is None:
            return util.finish(case, viol, counts, classes, False, desc, inconclusive="no placement")
        dele = set(case["delete"])
        kept = [a for a in frag if a.aname() not in dele]
        deleted = [(a.resn, a.aname(), "HETATM") for a in frag if a.aname() in dele]
        recs = base + ([pdbio.raw("TER")] if case["frag"].startswith("dna:") else []) + kept
        desc.update({"frag": case["frag"], "deleted": sorted(dele)})
        classes.append("fragment-truncated")
    else:
        # hetero: cut-out around a ligand / ion, delete some of the hetero atoms (and a few others)
        fname = rng.choice(("1HPX.pdb", "4DFR.pdb", "1FTJ-Chain-A.pdb"))
        full = sources.no_water(sources.repo_recs(fname))
        rl = sources.residue_list(full)
        het = [i for i, r in enumerate(rl) if r.key[0] == "HETATM"]
        ci = rng.choice(het)
        base, _ = sources.cutout(full, rng, rng.choice((6, 8, 10)), center=ci)
        recs, deleted = [], []
        rate = rng.choice((0.05, 0.15, 0.4, 0.8))
        for r in base:
            if r.raw is None and ((r.tag == "HETATM" and rng.random() < rate) or (r.tag == "ATOM  " and rng.random() < 0.02)):
                deleted.append((r.resn, r.aname(), r.tag))
            else:
                recs.append(r)
        desc["file"] = fname
        classes.append("hetero-truncated")
    if not any(r.raw is None and r.elem() != "H" and r.resn not in ("HOH", "H2O", "SO4", "PO4", "PEG", "EPE", "TRS") for r in recs):
        # nothing usable left: this is a reject case
        run = obs.run_single(pdbio.dump(recs))
        counts["pipeline_runs"] = 1
        if run.exc_type != "ValueError":
            viol.append({"cls": "empty-input-not-valueerror", "msg": "input without usable atoms: %r" % (run.exc,)})
        return util.finish(case, viol, counts, classes + ["emptied"], False, desc)
    if rng.random() < 0.25:
        # incomplete records too: lines that end after the coordinates (column 54), after the occupancy, or
        # mid-way through the trailing columns - every atom of the file or every third one
        tail = rng.choice(("", "", "  1.00", "  1.00 20.0"))
        every = rng.choice((1, 3))
        cut = []
        for i, r in enumerate(recs):
            if r.raw is None and i % every == 0:
                r = r.copy()
                r.tail = tail
            cut.append(r)
        recs = cut
        classes.append("records-end-after-column-%d" % (54 + len(tail)))
    text = pdbio.dump(recs)
    xo = util.neutral_options(rng, classes=classes)
    if not sources.identities_unique(recs):
        # tests/pdb/1HPX-warn.pdb repeats an atom record (two atoms on one position): such an input is
        # run with default options only (building hydrogens on coinciding atoms is not a truncation issue)
        xo = []
        classes.append("input-with-repeated-atom-record")
    keep_pen = rng.random() < 0.15
    if keep_pen:
        # a parameter file that keeps penalised groups in the report: then nothing may be missing
        xo = xo + ["-p", util.write_cfg({"remove_penalised_group": 0})]
        classes.append("penalised-groups-kept")
    run = obs.run_single(text, xo)
    counts["pipeline_runs"] = 1
    counts["truncations"] = 1
    if not xo and not run.exc and rng.random() < 0.2:
        # the reduced structure read into a container that already held (and computed) another structure
        used = run_in_used_container(first_structure(), text)
        counts["used_container_reads"] = counts.get("used_container_reads", 0) + 1
        dd = obs.compare_runs(run, used, tol=1e-9)
        if dd:
            viol.append({"cls": "used-container-differs", "msg": "read into a used container: %s" % obs.brief(dd, 4)})
        classes.append("read-into-used-container")
    desc.update({"atoms_left": len(pdbio.atoms(recs)), "deleted_n": len(deleted), "exc": run.exc})
    if run.exc:
        viol.append({"cls": "truncation-raises:" + run.exc_type,
                     "msg": "single() raised %s after deleting %d atoms (%s)" % (run.exc, len(deleted), desc.get("how") or desc.get("deleted") or desc.get("mode")),
                     "detail": {"deleted": deleted[:12]}})
    else:
        census_mon.check(run, text, viol, counts, classes, allow_topup_extras=True, remove_penalised=not keep_pen)
        if kind == "conformations" and sources.identities_unique(recs):
            from .. import multiconf
            r2_ = obs.run_single(text, xo, with_atoms=True, write_pka=False)
            counts["pipeline_runs"] += 1
            if not r2_.exc:
                nv_ = len(viol)
                multiconf.check_topup(r2_.rec, text, tuple(util.parse_cfg()["ignore_residues"]), viol, counts, classes)
                seen_ = {}
                for r_ in recs:
                    if r_.raw is None:
                        seen_.setdefault((r_.chain, r_.resnum), set()).add(r_.icode)
                tw_ = {k_ for k_, v_ in seen_.items() if len(v_) > 1}
                for v_ in viol[nv_:]:
                    res_ = v_.pop("res", None)
                    if res_ is not None and ((res_[0] if res_[0] != "_" else " "), res_[1]) in tw_:
                        v_["cls"] = "twins:" + v_["cls"]
        # whatever is missing, a group is placed on what is left of it: its centre lies within a few Angstrom
        # of its defining atom (never at the coordinate origin or on another residue)
        for cname_ in run.rec["names"]:
            for g_ in run.rec["confs"][cname_]["groups"]:
                if g_.get("center") is None or g_.get("ccc"):
                    continue
                counts["group_centres_checked"] = counts.get("group_centres_checked", 0) + 1
                d_ = sum((g_["center"][k_] - g_["akey"][k_ + 1] / 1000.0) ** 2 for k_ in range(3)) ** 0.5
                if d_ > 4.0:
                    viol.append({"cls": "group-centre-away-from-its-atoms", "msg": "%s: %s (%s) is centred at (%.3f %.3f %.3f), %.1f A from its atom %s" % (
                        cname_, g_["label"], g_["type"], g_["center"][0], g_["center"][1], g_["center"][2], d_, g_["akey"][0])})
                    break
        if kind == "fragment" and case["frag"] in fragments.FRAGMENTS and case["frag"] != "sulfate":
            # what is left of the ligand: a group whose atom stands clear of the deletion (nothing removed within
            # three bonds) is still reported with its type, and a nitrogen left without any bonded atom is the same
            # thing as the library's lone ammonium nitrogen (an N30 group)
            resn_, atoms_, expect_ = fragments.FRAGMENTS[case["frag"]]
            pos_ = {a[0]: a[2] for a in atoms_}
            el_ = {a[0]: a[1] for a in atoms_}

            def bonded_(x, y):
                d2_ = sum((pos_[x][k_] - pos_[y][k_]) ** 2 for k_ in range(3))
                return x != y and d2_ < (6.25 if el_[x] == el_[y] == "S" else 4.0)
            nb1 = {a: {b for b in pos_ if bonded_(a, b)} for a in pos_}
            nb2 = {a: nb1[a] | {c for b in nb1[a] for c in nb1[b]} for a in pos_}
            nb2 = {a: nb2[a] | {c for b in nb2[a] for c in nb1[b]} for a in pos_}      # three bonds: an ester's far carbon
            conf_ = run.rec["confs"][run.rec["names"][0]]
            got_ = {g["aid"][5]: g["type"] for g in conf_["groups"] if g["aid"][2] == 900 and g["aid"][1] == "L"}
            for a, t in expect_.items():
                if a in dele or (nb2[a] & dele) or case["frag"] in ("pyridine", "aniline", "imidazole"):
                    continue            # (a ring is perceived as a whole: any missing member changes every ring atom)
                counts["fragment_groups_clear_of_the_deletion"] = counts.get("fragment_groups_clear_of_the_deletion", 0) + 1
                if got_.get(a) != t:
                    viol.append({"cls": "ligand-group-lost-far-from-the-deletion", "msg": "%s without %s: atom %s (nothing removed within three bonds) is typed %r, the library declares %s" % (
                        case["frag"], sorted(dele), a, got_.get(a), t)})
            for a in pos_:
                if el_[a] == "N" and a not in dele and not (nb1[a] - dele):
                    counts["lone_nitrogens"] = counts.get("lone_nitrogens", 0) + 1
                    if got_.get(a) != "N30":
                        viol.append({"cls": "lone-ligand-nitrogen-not-an-amine-group", "msg": "%s without %s: nitrogen %s has no bonded atom left and is typed %r (the lone nitrogen of the library's ammonium is an N30 group)" % (
                            case["frag"], sorted(dele), a, got_.get(a))})
    for w in (run.logs or []):
        m = w[2]
        if "Missing atoms or failed protonation" in m:
            classes.append("warn:missing-atoms")
        elif "Side chain interaction failed" in m:
            classes.append("warn:side-chain-interaction-failed")
        elif "does not seem to contain a ring" in m:
            classes.append("warn:his-no-ring")
        elif "Missing N or O atom" in m:
            classes.append("warn:amide-missing")
        elif "interaction atoms missing" in m:
            classes.append("warn:coo-arg-atoms-missing")
        elif "Unexpected number" in m:
            classes.append("warn:precheck")
    classes.append("kind:" + kind)
    nontrivial = touches_group_branch(deleted) and not run.exc
    import hashlib
    return util.finish(case, viol, counts, classes, nontrivial, desc, digest=hashlib.sha1(text.encode()).hexdigest()[:16])


def run_in_used_container(first_text, text, optargs=()):
    """Read `text` into a MolecularContainer that already holds (and has computed) another structure:
    the public reader is handed a container and returns it 'updated' - what it then holds must be what a
    fresh container would hold. Never raises."""
    import io
    from .. import obs
    from propka.lib import loadOptions
    from propka.input import read_parameter_file, read_molecule_file
    from propka.parameters import Parameters
    from propka.molecular_container import MolecularContainer
    r = obs.Run()
    r.mol = r.text = r.exc = r.exc_type = None
    r.logs, r.wall = [], 0.0
    r.rec = None
    with obs.capture_logs():
        options = loadOptions(tuple(optargs) + ("case.pdb",))
        parameters = read_parameter_file(options.parameters, Parameters())
        mol = MolecularContainer(parameters, options)
        mol = read_molecule_file("first.pdb", mol, stream=io.StringIO(first_text))
        mol.calculate_pka()
        try:
            mol = read_molecule_file("case.pdb", mol, stream=io.StringIO(text))
            mol.calculate_pka()
            r.rec = obs.record_of(mol)
            r.rec["warnings"] = []
        except BaseException as e:  # noqa - the exception type is the observation
            if isinstance(e, (KeyboardInterrupt, MemoryError)):
                raise
            r.exc = "%s: %s" % (type(e).__name__, str(e)[:300])
            r.exc_type = type(e).__name__
    return r


_FIRST = None


def first_structure():
    global _FIRST
    if _FIRST is None:
        from .. import pdbio, sources
        _FIRST = pdbio.dump(sources.no_water(sources.repo_recs("sample-issue-140.pdb")))
    return _FIRST


def reject_case(case, rng, viol, counts, classes):
    from .. import obs, pdbio, sources, util
    mode = case["mode"]
    good = pdbio.dump(sources.no_water(sources.repo_recs("sample-issue-140.pdb")))
    name = "case.pdb"
    expect_error = True
    if mode == "empty":
        text = ""
    elif mode == "remark-only":
        text = "REMARK   1 NOTHING HERE\nHEADER    X\nEND\n"
    elif mode == "blank-lines":
        text = "\n\n   \n"
    elif mode == "ter-only":
        text = "TER   \nEND\n"
    elif mode == "water-only":
        text = "".join("HETATM%5d  O   HOH A%4d    %8.3f%8.3f%8.3f  1.00  0.00           O\n" % (i, i, i * 3.0, 1.0, 2.0) for i in range(1, 6))
    elif mode == "hydrogen-only":
        text = "".join("ATOM  %5d  H   ALA A%4d    %8.3f%8.3f%8.3f  1.00  0.00           H\n" % (i, i, i * 3.0, 1.0, 2.0) for i in range(1, 6))
    elif mode.startswith("ext-"):
        text = good
        name = {"ext-xyz": "case.xyz", "ext-none": "case", "ext-gz": "case.pdb.gz", "ext-upper": "case.PDB",
                "ext-mixed": "case.PdB", "ext-pqr": "case.pqr"}[mode]
        expect_error = mode not in ("ext-upper", "ext-mixed")
    as_path = rng.random() < 0.5
    run = obs.run_single(text, name=name, as_path=as_path)
    counts["pipeline_runs"] = 1
    counts["reject_cases"] = 1
    if expect_error and run.exc_type != "ValueError":
        viol.append({"cls": "reject-not-valueerror", "msg": "%s (%s, as_path=%s): expected ValueError, got %r" % (mode, name, as_path, run.exc)})
    if not expect_error and run.exc:
        viol.append({"cls": "valid-extension-rejected", "msg": "%s: %r" % (name, run.exc)})
    if not mode.startswith("ext-"):
        # the same input read into a container that was used before: still nothing to work on
        used = run_in_used_container(good, text)
        counts["used_container_reads"] = counts.get("used_container_reads", 0) + 1
        if used.exc_type != "ValueError":
            viol.append({"cls": "reject-not-valueerror", "msg": "%s read into a used container: expected ValueError, got %r (%s)" % (
                mode, used.exc, "conformations %r" % used.rec["names"] if used.rec else "no record")})
    classes.append("reject:" + mode)
    return util.finish(case, viol, counts, classes, True, {"kind": "reject", "mode": mode, "name": name, "exc": run.exc})


def verdict(tier, counts, classes, nontrivial, results):
    reasons = []
    if counts.get("truncations", 0) < 50:
        reasons.append("fewer than 50 truncations executed")
    if counts.get("reject_cases", 0) < 8:
        reasons.append("reject cases not exercised")
    if counts.get("census_sites_matched", 0) == 0:
        reasons.append("census never matched a site on a truncated input")
    for c in ("warn:missing-atoms", "warn:his-no-ring", "warn:amide-missing", "hetero-truncated"):
        if c not in classes:
            reasons.append("guard branch %s never reached" % c)
    return reasons
