"""Runtime-monitoring framework for the PROPKA properties C01..C20 (see /verif/DESIGN.md)."""
