"""Tiny contract layer: wrappers with evaluation counters that never raise into the code
under test, and patch_everywhere() which rebinds every alias of a function inside the
propka package (module globals created by `from m import f`, class attributes)."""
import functools
import sys
import types

COUNTS = {}
WITNESSES = []          # violations recorded by function-level monitors
MAX_WITNESSES = 50


def count(name, n=1):
    COUNTS[name] = COUNTS.get(name, 0) + n


def report(cls, msg, **detail):
    if len(WITNESSES) < MAX_WITNESSES:
        WITNESSES.append({"cls": cls, "msg": msg, "detail": detail})


def drain():
    """Return and reset (counts, witnesses)."""
    global COUNTS, WITNESSES
    c, w = COUNTS, WITNESSES
    COUNTS, WITNESSES = {}, []
    return c, w


def propka_modules():
    return [m for n, m in list(sys.modules.items())
            if (n == "propka" or n.startswith("propka.")) and m is not None]


def import_all_propka():
    import importlib
    for n in ("atom", "bonds", "calculations", "conformation_container", "coupled_groups",
              "determinant", "determinants", "energy", "group", "hybrid36", "hydrogens",
              "input", "iterative", "lib", "ligand", "molecular_container", "output",
              "parameters", "protonate", "run", "vector_algebra", "version"):
        importlib.import_module("propka." + n)


def patch_everywhere(orig, new):
    """Replace every binding of `orig` in propka module globals and class dicts."""
    n = 0
    for mod in propka_modules():
        for k, v in list(vars(mod).items()):
            if v is orig:
                setattr(mod, k, new)
                n += 1
            elif isinstance(v, type) and getattr(v, "__module__", "").startswith("propka"):
                for ck, cv in list(vars(v).items()):
                    raw = cv.__func__ if isinstance(cv, (staticmethod, classmethod)) else cv
                    if raw is orig:
                        if isinstance(cv, staticmethod):
                            setattr(v, ck, staticmethod(new))
                        elif isinstance(cv, classmethod):
                            setattr(v, ck, classmethod(new))
                        else:
                            setattr(v, ck, new)
                        n += 1
    return n


def wrap(orig, pre=None, post=None, name=None):
    """Observer wrapper. pre(args, kwargs) -> snapshot; post(snapshot, result, exc, args, kwargs).
    Monitor failures are recorded as 'monitor-error' witnesses, never raised."""
    label = name or getattr(orig, "__qualname__", str(orig))

    @functools.wraps(orig)
    def wrapper(*args, **kwargs):
        snap = None
        if pre is not None:
            try:
                snap = pre(args, kwargs)
            except Exception as e:  # pragma: no cover
                report("monitor-error", "%s pre: %r" % (label, e))
        try:
            result = orig(*args, **kwargs)
        except BaseException as e:
            if post is not None:
                try:
                    post(snap, None, e, args, kwargs)
                except Exception as e2:  # pragma: no cover
                    report("monitor-error", "%s post: %r" % (label, e2))
            raise
        if post is not None:
            try:
                post(snap, result, None, args, kwargs)
            except Exception as e:  # pragma: no cover
                import traceback
                report("monitor-error", "%s post: %s" % (label, traceback.format_exc()[-400:]))
        return result
    wrapper.__wrapped_orig__ = orig
    return wrapper


def install(module, attr, pre=None, post=None, owner=None):
    """Wrap module.attr (or owner.attr for methods) and rebind all aliases."""
    target = owner if owner is not None else module
    cv = vars(target)[attr] if isinstance(target, type) else getattr(target, attr)
    raw = cv.__func__ if isinstance(cv, (staticmethod, classmethod)) else cv
    if hasattr(raw, "__wrapped_orig__"):
        return raw
    new = wrap(raw, pre, post, name="%s.%s" % (getattr(target, "__name__", target), attr))
    n = patch_everywhere(raw, new)
    if n == 0:
        raise RuntimeError("patch_everywhere found no binding of %s" % attr)
    return new
