"""Small helpers shared by the property modules."""
import atexit
import os
import shutil
import tempfile

from . import contracts, env

_TMP = None


def worker_tmp():
    """A private scratch directory of this worker process, removed at exit."""
    global _TMP
    if _TMP is None:
        _TMP = tempfile.mkdtemp(prefix="vpw-")
        atexit.register(shutil.rmtree, _TMP, True)
    return _TMP


def cfg_path():
    return os.path.join(env.REPO, "propka", "propka.cfg")


def read_cfg_lines():
    with open(cfg_path()) as fh:
        return fh.read().splitlines()


def parse_cfg(lines=None):
    """Harness's own tiny parser of propka.cfg (never uses propka.parameters)."""
    out = {"model_pkas": {}, "custom_model_pkas": {}, "charge": {}, "ions": {}, "ignore_residues": [],
           "write_out_order": [], "acid_list": [], "base_list": [], "protein_group_mapping": {},
           "scalars": {}, "interaction_matrix": [], "sidechain_cutoffs": [], "backbone_NH_hydrogen_bond": {},
           "backbone_CO_hydrogen_bond": {}, "VanDerWaalsVolume": {},
           "angular_dependent_sidechain_interactions": [], "backbone_reorganisation_list": [],
           "exclude_sidechain_interactions": []}
    for line in (lines if lines is not None else read_cfg_lines()):
        line = line.split("#")[0]
        w = line.split()
        if not w:
            continue
        k = w[0]
        if k in ("model_pkas", "custom_model_pkas", "charge", "ions", "VanDerWaalsVolume"):
            out[k][w[1]] = float(w[2])
        elif k in ("ignore_residues", "write_out_order", "acid_list", "base_list",
                   "angular_dependent_sidechain_interactions", "backbone_reorganisation_list",
                   "exclude_sidechain_interactions"):
            out[k].append(w[1])
        elif k == "protein_group_mapping":
            out[k][w[1]] = w[2]
        elif k in ("interaction_matrix", "sidechain_cutoffs"):
            out[k].append(w[1:])
        elif k in ("backbone_NH_hydrogen_bond", "backbone_CO_hydrogen_bond"):
            out[k][w[1]] = [float(x) for x in w[2:]]
        elif len(w) == 2:
            out["scalars"][k] = w[1]
    return out


def write_cfg(overrides, name=None):
    """Copy of the shipped parameter file with scalar lines overridden; returns the path."""
    import zlib
    lines = read_cfg_lines()
    seen = set()
    out = []

    def form(k, v):
        # the file format is "keyword value" split on white space with '#' comments: the same setting
        # is written plain, indented (blanks / tab) or with a trailing comment, by content
        f = zlib.crc32(("%s=%s|%r" % (k, v, sorted(overrides.items()))).encode()) % 5
        return ("%s %s", "  %s %s", "\t%s\t%s", "%s %s   # set for this scan", "    %s    %s  ")[f] % (k, v)

    for line in lines:
        w = line.split("#")[0].split()
        if len(w) > 2 and "ROW:%s %s" % (w[0], w[1]) in overrides:
            # a row of a table (hydrogen-bond parameters of one group type) replaced where it stands:
            # an appended second definition would extend the row's list instead of replacing it
            k = "ROW:%s %s" % (w[0], w[1])
            out.append(form(k[4:], overrides[k]))
            seen.add(k)
        elif w and w[0] in overrides and len(w) == 2:
            out.append(form(w[0], overrides[w[0]]))
            seen.add(w[0])
        else:
            out.append(line)
    for k, v in overrides.items():
        if k not in seen:
            # (a key of two words, such as "ions FE", re-defines a table row: the line is appended at the end of
            # the copy, after the shipped definition - the way parameter files are usually made)
            out.append(form(k, v))
    assert all(k in seen for k in overrides if k.startswith("ROW:")), overrides
    name = name or "cfg-" + "-".join("%s%s" % (k[:6], v) for k, v in sorted(overrides.items())) + ".cfg"
    name = name.replace(" ", "_").replace(":", "_")
    path = os.path.join(worker_tmp(), name)
    with open(path, "w") as fh:
        fh.write("\n".join(out) + "\n")
    return path


NEUTRAL = {
    "display": (["-q"], ["--log-level", "DEBUG"], ["--log-level", "WARNING"], ["--log-level", "ERROR"]),
    "grid": (["-g", "0.0", "14.0", "0.5"], ["-w", "2.0", "10.0", "2.0"], ["-g", "1.0", "13.0", "0.25", "-w", "1.0", "13.0", "0.5"],
             ["-r", "low-pH"]),
    "protonation": (["--protonate-all"],),
    "keep": (["-k"],),
    "swap-display": (["-d"],),
}


def neutral_options(rng, families=("display", "grid", "protonation", "keep", "swap-display"), p=0.3, classes=None):
    """Options that enter through a non-default door of the program but must leave the clause under
    test untouched (every run of a comparison gets the same list). Returns [] with probability 1-p."""
    if rng.random() >= p:
        return []
    out = []
    for fam in rng.sample(list(families), rng.choice((1, 1, 2))):
        out += list(rng.choice(NEUTRAL[fam]))
        if classes is not None:
            classes.append("extra-options:" + fam)
    return out


def finish(case, viol, counts, classes, nontrivial, sample, evals=None, inconclusive=None, digest=None):
    """Merge the function-level monitors' counters/witnesses and build the result record."""
    c2, w2 = contracts.drain()
    for k, v in c2.items():
        counts[k] = counts.get(k, 0) + v
    viol = list(viol) + list(w2)
    res = {"violations": viol[:12], "nontrivial": bool(nontrivial),
           "digest": digest or repr(sorted(((k, v) for k, v in case.items() if k != "id"), key=str)),
           "counts": counts, "classes": sorted(set(classes)), "sample": sample,
           "evals": evals if evals is not None else counts.get("pipeline_runs", 1)}
    if inconclusive:
        res["inconclusive"] = inconclusive
    return res


def titratable_residues(recs):
    """(chain, resnum, icode) of ATOM residues that carry an ionizable side chain, plus termini."""
    out = []
    seen = set()
    for r in recs:
        if r.raw is None and r.tag == "ATOM  " and r.resn in ("ASP", "GLU", "HIS", "CYS", "TYR", "LYS", "ARG"):
            k = (r.chain, r.resnum, r.icode)
            if k not in seen:
                seen.add(k)
                out.append(k)
    return out


def res_arg(k):
    chain, num, icode = k
    return "%s:%d%s" % (chain, num, icode.strip())
