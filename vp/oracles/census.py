"""Census of ionizable sites derived from the PDB text alone (property C01's statement and
the PDB format; never imports propka).

Side-chain sites: ATOM records (resname, atom) in
  ASP-CG 3.80, GLU-CD 4.50, HIS-CG 6.50, CYS-SG 9.00, TYR-OH 10.00, LYS-NZ 10.50, ARG-CZ 12.50
N+ 8.00: atom N of every chain-start residue - the first ATOM residue of a model, the first
  after a TER record, the first after a residue that carries a terminal oxygen (OXT / O'').
C- 3.20: every OXT / O'' atom.
A CYS whose SG is closer than 2.5 A to another sulfur atom is bridged (reported as 99.99).
Residues are identified by (chain, number, insertion code).
"""
import string

SIDE_CHAIN = {("ASP", "CG"): 3.80, ("GLU", "CD"): 4.50, ("HIS", "CG"): 6.50, ("CYS", "SG"): 9.00,
              ("TYR", "OH"): 10.00, ("LYS", "NZ"): 10.50, ("ARG", "CZ"): 12.50}
NTERM, CTERM = 8.00, 3.20
TERMINAL_OXYGENS = ("OXT", "O''")
DNA = ("DA", "DC", "DG", "DT")


def _elem(name4):
    e = name4[0:2].strip().strip(string.digits)
    if len(name4.strip()) == 4:
        e = e[:1]
    return e


def _milli(field):
    s = field.strip()
    neg = s.startswith("-")
    s = s.lstrip("+-")
    a, _, b = s.partition(".")
    v = int(a or "0") * 1000 + int((b + "000")[:3] or "0")
    return -v if neg else v


class Site(dict):
    pass


def label_of(rtype, resnum, chain):
    return "%-3s%4d%2s" % (rtype, resnum, chain if chain.strip() else "_")


def census(text, chains=None, titrate_only=None, ignore=()):
    """Returns {'models': {model number: [Site]}, 'altloc': bool, 'ties': int,
    'duplicate_ids': bool}. Site keys: kind ('side'|'N+'|'C-'), rtype, model, akey,
    resid, resname, bridged, label, in_list."""
    models = {}
    model = 1
    pending = True            # next ATOM residue starts a chain
    oxt_res = None            # residue that carried the terminal oxygen
    nterm_res = None
    altloc = False
    sulfurs = {}
    seen_res = {}
    last_res = {}
    dup = False
    for line in text.splitlines():
        tag = (line[:6] + "      ")[:6]
        if tag == "MODEL ":
            try:
                model = int(line[6:])
            except ValueError:
                pass
            pending, oxt_res, nterm_res = True, None, None
            continue
        if tag == "TER   ":
            pending, oxt_res = True, None
            continue
        if tag not in ("ATOM  ", "HETATM") or len(line) < 54:
            continue
        resn = line[17:20]
        if resn in ignore:
            continue
        chain = line[21]
        if chains and chain not in chains:
            continue
        if line[16] != " ":
            altloc = True
        name4 = line[12:16]
        name = name4.strip()
        elem = _elem(name4)
        resnum = int(line[22:26])
        icode = line[26]
        resid = (chain, resnum, icode)
        xyz = (_milli(line[30:38]), _milli(line[38:46]), _milli(line[46:54]))
        sites = models.setdefault(model, [])
        # duplicate identities (two separate residues with one id) make the census ambiguous
        key = (model, tag == "ATOM  ", resid, resn)
        # (a residue may be interrupted by records of the other record type, e.g. a HETATM ion
        # written between its atoms: runs are tracked per record type)
        if last_res.get((model, tag)) != key:
            if key in seen_res:
                dup = True
            seen_res[key] = True
            last_res[(model, tag)] = key
        if tag == "ATOM  ":
            if pending and resid != oxt_res:
                nterm_res = resid
                pending = False
                oxt_res = None
            if elem == "H":
                continue
        elif elem == "H":
            continue
        if elem == "S":
            sulfurs.setdefault(model, []).append((xyz, (name, ) + xyz))
        if tag != "ATOM  ":
            continue
        dna = resn.strip() in DNA
        if name == "N" and resid == nterm_res and not dna:
            sites.append(Site(kind="N+", rtype="N+", model=NTERM, akey=(name,) + xyz, resid=resid,
                              resname=resn, bridged=False))
        elif name in TERMINAL_OXYGENS:
            if not dna:
                sites.append(Site(kind="C-", rtype="C-", model=CTERM, akey=(name,) + xyz, resid=resid,
                                  resname=resn, bridged=False))
            pending = True
            oxt_res = resid
        elif (resn, name) in SIDE_CHAIN:
            sites.append(Site(kind="side", rtype=resn, model=SIDE_CHAIN[(resn, name)], akey=(name,) + xyz,
                              resid=resid, resname=resn, bridged=False))
    ties = 0
    for m, sites in models.items():
        ss = sulfurs.get(m, [])
        for s in sites:
            if s["rtype"] == "CYS":
                x, y, z = s["akey"][1:]
                for (xyz, key) in ss:
                    if key == s["akey"]:
                        continue
                    d2 = (xyz[0] - x) ** 2 + (xyz[1] - y) ** 2 + (xyz[2] - z) ** 2
                    if d2 == 2500 ** 2:
                        # exactly 2.5 A: with all six coordinates on multiples of 0.125 A the floating-point
                        # distance is exact and the strict "less than" of the rule decides - no bridge;
                        # otherwise rounding decides and the input is not judged
                        if not all(c % 125 == 0 for c in (x, y, z) + tuple(xyz)):
                            ties += 1
                    elif d2 < 2500 ** 2:
                        s["bridged"] = True
            s["label"] = label_of(s["rtype"], s["resid"][1], s["resid"][0])
            s["in_list"] = titrate_only is None or tuple(s["resid"]) in titrate_only
    return {"models": models, "altloc": altloc, "ties": ties, "duplicate_ids": dup}


def expected_report(sites, titrate_only=None):
    """Sites that must be reported: all when no list is given; with a list exactly the sites of
    the listed residues (a bridged CYS of a listed residue is reported as 99.99)."""
    return [s for s in sites if s["in_list"]]
