"""Reference hybrid-36 encoder/decoder written from the format definition
(http://cci.lbl.gov/hybrid_36/): for a field of width w
  decimal   -(10^(w-1)-1) .. 10^w-1                     right-justified decimal
  upper     10^w .. 10^w + 26*36^(w-1) - 1              base-36, digits 0-9A-Z, first A-Z
  lower     10^w + 26*36^(w-1) .. 10^w + 52*36^(w-1)-1  base-36, digits 0-9a-z, first a-z
Never imports propka."""
import re

DIG_U = "0123456789ABCDEFGHIJKLMNOPQRSTUVWXYZ"
DIG_L = "0123456789abcdefghijklmnopqrstuvwxyz"
VAL = {c: i for i, c in enumerate(DIG_U)}
VAL.update({c: i for i, c in enumerate(DIG_L)})


def limits(w):
    lo = -(10 ** (w - 1) - 1) if w > 1 else 0
    hi = 10 ** w + 52 * 36 ** (w - 1) - 1
    return lo, hi


def _b36(v, w, digits):
    out = []
    for _ in range(w):
        out.append(digits[v % 36])
        v //= 36
    assert v == 0
    return "".join(reversed(out))


def encode(n, w, pad=True):
    lo, hi = limits(w)
    if not lo <= n <= hi:
        raise ValueError("out of range")
    if n < 10 ** w:
        s = str(n)
        return s.rjust(w) if pad else s
    m = n - 10 ** w
    seg = 26 * 36 ** (w - 1)
    if m < seg:
        return _b36(m + 10 * 36 ** (w - 1), w, DIG_U)
    return _b36(m - seg + 10 * 36 ** (w - 1), w, DIG_L)


_VALID = re.compile(r"^-?(?:[0-9]+|[A-Z][0-9A-Z]*|[a-z][0-9a-z]*)$")
_WS = " \t\n\r\x0b\x0c"


def expected(s):
    """('value', n) for a well-formed field (optional sign; the repository's own tests pin
    that a sign is accepted in front of the letter forms too), else ('error',)."""
    t = s.strip(_WS) if all(ord(c) < 128 for c in s) else s.strip()
    if not _VALID.match(t) or not t.isascii():
        return ("error",)
    sign = 1
    if t[0] == "-":
        sign, t = -1, t[1:]
    w = len(t)
    if t[0] in "0123456789":
        v = 0
        for c in t:
            v = v * 10 + VAL[c]
        return ("value", sign * v)
    v = 0
    for c in t:
        v = v * 36 + VAL[c]
    if t[0] in DIG_U[10:]:
        return ("value", sign * (v - 10 * 36 ** (w - 1) + 10 ** w))
    return ("value", sign * (v - 10 * 36 ** (w - 1) + 26 * 36 ** (w - 1) + 10 ** w))
