"""Independent Henderson-Hasselbalch evaluation from plain group records. Never imports propka."""
import math


def group_charge(Q, pK, pH):
    """q(pH) = Q / (1 + 10^(Q (pH - pK)))."""
    x = Q * (pH - pK)
    if x > 300:
        return 0.0
    if x < -300:
        return float(Q)
    return Q / (1.0 + 10.0 ** x)


def total_charge(groups, pH, state):
    """groups: records with titratable, charge, model_pka, pka. state: 'folded'|'unfolded'."""
    s = 0.0
    for g in groups:
        if g["titratable"]:
            s += group_charge(g["charge"], g["pka"] if state == "folded" else g["model_pka"], pH)
    return s


def grid_points(mn, mx, step):
    """The arithmetic grid min + i*step, i = 0..floor((max-min)/step + 1e-9)."""
    n = int(math.floor((mx - mn) / step + 1e-9))
    return [mn + i * step for i in range(n + 1)]


def root(groups, state, lo, hi):
    """Root of the total charge in [lo,hi] by bisection to 1e-12, or None if no sign change."""
    flo, fhi = total_charge(groups, lo, state), total_charge(groups, hi, state)
    if not (flo > 0.0 > fhi):
        return None
    for _ in range(200):
        mid = 0.5 * (lo + hi)
        if total_charge(groups, mid, state) > 0.0:
            lo = mid
        else:
            hi = mid
        if hi - lo < 1e-13:
            break
    return 0.5 * (lo + hi)


def simpson(f, a, b, n=2000):
    if n % 2:
        n += 1
    h = (b - a) / n
    s = f(a) + f(b)
    for i in range(1, n):
        s += (4 if i % 2 else 2) * f(a + i * h)
    return s * h / 3.0
