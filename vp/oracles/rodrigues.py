"""Closed-form right-handed rotation about an axis (Rodrigues). Never imports propka."""
import math


def rotate(theta, axis, vec):
    n = math.sqrt(axis[0] * axis[0] + axis[1] * axis[1] + axis[2] * axis[2])
    k = (axis[0] / n, axis[1] / n, axis[2] / n)
    c, s = math.cos(theta), math.sin(theta)
    kv = k[0] * vec[0] + k[1] * vec[1] + k[2] * vec[2]
    cr = (k[1] * vec[2] - k[2] * vec[1], k[2] * vec[0] - k[0] * vec[2],
          k[0] * vec[1] - k[1] * vec[0])
    return tuple(vec[i] * c + cr[i] * s + k[i] * kv * (1.0 - c) for i in range(3))


def pattern(axis):
    """Zero/sign pattern of an axis, e.g. '0-+'."""
    return "".join("0" if c == 0 else ("+" if c > 0 else "-") for c in axis)
