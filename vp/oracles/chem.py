"""Chemistry that no configuration can change: the sign of an ion's charge, and that an acid carries
negative and a base positive formal charge. Never imports propka."""

ANIONS = {"CL", "IOD", "BR", "F", "1N", "2N"}        # halides and the generic negative ions


def ion_sign(resname):
    """-1 for halides / generic anions, +1 for every other configured ion (metals, generic cations)."""
    return -1 if resname.strip().upper() in ANIONS else 1


def class_sign(group_type, residue_type, acid_list, base_list):
    """-1 if the group's type (or residue type) is listed as an acid, +1 if as a base, None otherwise."""
    for t in (residue_type, group_type):
        if t in acid_list:
            return -1
        if t in base_list:
            return 1
    if group_type == "COO":
        return -1
    return None
