import argparse
import os
import sys

from . import env, runner


def main(argv=None):
    ap = argparse.ArgumentParser(prog="check")
    ap.add_argument("property")
    ap.add_argument("--tier", default=None)
    ap.add_argument("--replay", default=None)
    a = ap.parse_args(argv)
    tier = a.tier or env.tier()
    os.environ["VERIF_TIER"] = tier
    pid = a.property.upper()
    return runner.main_check(pid, tier, replay=a.replay)


if __name__ == "__main__":
    sys.exit(main())
