"""pytest plugin: run the repository's own tests with every function-level contract on
(calibration workload, DESIGN 7.2). Usage:
  cd /repo && PYTHONPATH=/repo:/verif /venv/bin/python -m pytest -q -p vp.pytest_plugin -p no:cacheprovider
A contract that fires here is either too strict or a defect the tests do not assert."""
import json
import os


def pytest_configure(config):
    from . import contracts
    from .monitors import bonds, charge, energy_mon, protonate_mon, rotate, swap, totals
    from .props import c18, c19
    contracts.import_all_propka()
    bonds.install()
    rotate.install()
    c19.install_decode_contract()
    totals.install()
    charge.install_charge_contract()
    charge.install_grid_contract()
    energy_mon.install()
    swap.install()
    protonate_mon.install()
    c18.setup("quick")


def pytest_sessionfinish(session, exitstatus):
    from . import contracts
    counts, witnesses = contracts.drain()
    out = {"counts": counts, "witnesses": witnesses[:50]}
    path = os.environ.get("VP_PLUGIN_OUT")
    if path:
        with open(path, "w") as fh:
            json.dump(out, fh, indent=1)
    tr = session.config.pluginmanager.get_plugin("terminalreporter")
    line = "vp contracts: %d evaluations over %d monitors, %d witnesses" % (
        sum(counts.values()), len(counts), len(witnesses))
    if tr:
        tr.write_line(line)
        for w in witnesses[:10]:
            tr.write_line("  WITNESS %s: %s" % (w["cls"], w["msg"][:200]))
    if witnesses and exitstatus == 0:
        session.exitstatus = 3
