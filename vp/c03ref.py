"""Fresh-interpreter reference for C03: run one (content, options) alone and print its
canonical record. Usage: python -m vp.c03ref <spec.json>"""
import json
import sys


def canonical(run):
    from .props import c03
    return c03.canonical(run)


def main(argv):
    from . import env, obs
    env.assert_propka_from_repo()
    with open(argv[1]) as fh:
        spec = json.load(fh)
    from .props import c03
    run = obs.run_single(spec["text"], c03.realise(spec["opts"]), name=spec.get("name", "case.pdb"),
                         as_path=spec.get("as_path", False), profiles=True)
    # (anything the package itself prints on standard output comes before the marker)
    sys.stdout.write("\n@@C03REF@@" + json.dumps(canonical(run), sort_keys=True))
    return 0


if __name__ == "__main__":
    sys.exit(main(sys.argv))
