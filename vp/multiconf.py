"""Multi-conformation inputs (MODEL records, alternate-location tags): builders, the harness's
own reading of which atom belongs to which conformation, and the C08 oracles."""
import math

from . import pdbio, sources

ALT_LETTERS = "ABCDE"
ALT_DIGITS = "12345"
MUTATE_TO = {"ASP": "ALA", "GLU": "ALA", "HIS": "ALA", "LYS": "ALA", "ARG": "ALA", "TYR": "PHE", "CYS": "SER",
             "SER": "ALA", "THR": "ALA", "ASN": "ASP", "GLN": "GLU", "VAL": "ALA", "LEU": "ALA", "ILE": "ALA",
             "PHE": "ALA", "MET": "ALA", "TRP": "ALA"}


def conformation_of(model, alt):
    if alt in "123456789":
        alt = chr(ord(alt) + 16)
    if alt == " ":
        alt = "A"
    return "%d%s" % (model, alt)


def own_atoms(text, ignore=()):
    """{conformation name: [(identity, akey, resname)]} read from the text by the PDB rules:
    identity = (chain, number, icode, atom name); hydrogens and ignorable residues dropped."""
    out = {}
    model = 1
    for line in text.splitlines():
        tag = (line[:6] + "      ")[:6]
        if tag == "MODEL ":
            model = int(line[6:])
            continue
        if tag not in pdbio.ATOM_TAGS or len(line) < 54:
            continue
        r = pdbio.Rec(line)
        if r.resn in ignore or r.elem() == "H":
            continue
        out.setdefault(conformation_of(model, r.alt), []).append(
            ((r.chain, r.resnum, r.icode, r.aname()), r.akey(), r.resn))
    return out


def jitter(r, rng, amp=250):
    r = r.copy()
    r.x += rng.randrange(-amp, amp + 1)
    r.y += rng.randrange(-amp, amp + 1)
    r.z += rng.randrange(-amp, amp + 1)
    return r


def mutate_residue(atoms, rng):
    """Point mutant of a residue: truncate the side chain and rename (e.g. ASP -> ALA)."""
    resn = atoms[0].resn
    if resn in ("GLU", "GLN") and rng.random() < 0.5:
        # a mutant of the same group type one position up the chain (GLU -> ASP, GLN -> ASN): the old CB is
        # dropped, CG/CD/OE1/OE2(NE2) become CB/CG/OD1/OD2(ND2) - a carboxylate / amide on a shorter side chain
        ren = {"CG": " CB ", "CD": " CG ", "OE1": " OD1", "OE2": " OD2", "NE2": " ND2"}
        out = []
        for a in atoms:
            n = a.aname()
            if n == "CB":
                continue
            a = a.copy()
            a.resn = "ASP" if resn == "GLU" else "ASN"
            if n in ren:
                a.name = ren[n]
            out.append(a)
        return out
    new = MUTATE_TO.get(resn)
    if new is None:
        return None
    keep = {"ALA": ("N", "CA", "C", "O", "CB", "OXT"), "PHE": None, "SER": None, "ASP": None, "GLU": None}[new]
    out = []
    for a in atoms:
        n = a.aname()
        if keep is not None and n not in keep:
            continue
        if new == "PHE" and n == "OH":
            continue
        a = a.copy()
        a.resn = new
        if new == "SER" and n == "SG":
            a.name = " OG "
        if new == "ASP" and n == "ND2":
            a.name = " OD2"
        if new == "GLU" and n == "NE2":
            a.name = " OE2"
        out.append(a)
    return out


def build_same_type_mutant(rng):
    """2-5 models of a cut-out in which one GLU (GLN) is, in one of the models, the mutant of the same group type
    (ASP, ASN): two different residues - different labels, model pKa values - with one group type on one
    chain and number. Returns (records, description) or (None, None)."""
    for _ in range(20):
        base = sources.random_small_structure(rng, 60, 500)
        base = [r for r in base if r.raw is not None or r.alt in (" ", "A")]
        base = [(_blank_alt(r) if r.raw is None else r) for r in base]
        rl = sources.residue_list(base)
        cand = [i for i, r in enumerate(rl) if r.key[0] == "ATOM  " and r.key[4] in ("GLU", "GLU", "GLN")
                and {"CB", "CG", "CD"} <= {a.aname() for a in r.atoms}]
        if cand:
            break
    else:
        return None, None
    i_ = rng.choice(cand)
    k = rng.choice((2, 3, 5))
    which = rng.randrange(1, k + 1)
    out = []
    for m in range(1, k + 1):
        out.append(pdbio.raw("MODEL     %4d" % m))
        first = True
        for i, res in enumerate(rl):
            if res.ter_before and not first:
                out.append(pdbio.raw("TER"))
            first = False
            atoms = res.atoms
            if i == i_ and m == which:
                # force the same-type branch of mutate_residue
                for _try in range(20):
                    mut = mutate_residue(atoms, rng)
                    if mut and mut[0].resn in ("ASP", "ASN"):
                        atoms = mut
                        break
            for a in atoms:
                if m > 1 and a.aname() not in ("N", "CA", "C", "O"):
                    a = jitter(a, rng)
                out.append(a)
        out.append(pdbio.raw("ENDMDL"))
    return out, {"mode": "models", "k": k, "events": ["same-type-mutant-in-model-%d-of-%d" % (which, k)]}


def build(rng, base=None):
    """Returns (records, description). Modes: models / altloc, with jitter, deletions, mutants."""
    base = base if base is not None else sources.random_small_structure(rng, 60, 500)
    base = [r for r in base if r.raw is not None or r.alt in (" ", "A")]
    base = [(_blank_alt(r) if r.raw is None else r) for r in base]
    rl = sources.residue_list(base)
    prot = [i for i, r in enumerate(rl) if r.key[0] == "ATOM  "]
    mode = rng.choice(("models", "models", "altloc", "altloc", "identical-models"))
    desc = {"mode": mode, "events": []}
    if mode == "identical-models":
        k = rng.choice((2, 3, 4))
        out = []
        for m in range(1, k + 1):
            out.append(pdbio.raw("MODEL     %4d" % m))
            out.extend(base)
            out.append(pdbio.raw("ENDMDL"))
        desc["k"] = k
        return out, desc
    if mode == "models":
        k = rng.choice((2, 2, 3, 4, 5))
        desc["k"] = k
        out = []
        tit = [i for i in prot if rl[i].key[4] in ("ASP", "GLU", "HIS", "LYS", "ARG", "TYR", "CYS")]
        # models that all have the same number of atoms but lack different residues of one type
        equal_size = None
        if rng.random() < 0.2:
            by_type = {}
            for i in prot:
                by_type.setdefault((rl[i].key[4], len(rl[i].atoms)), []).append(i)
            pools = [v for v in by_type.values() if len(v) >= k]
            if pools:
                equal_size = rng.sample(rng.choice(pools), k)
                desc["events"].append("different-residue-of-equal-size-missing-in-each-model")
        # a group that only the later models have: the terminal oxygen of a chain end (preferably of an ASP / GLU,
        # whose side chain holds a group of the same type on the same residue) is absent from model 1
        late_oxt = None
        if equal_size is None and rng.random() < 0.2:
            ends = [i for n_, i in enumerate(prot) if (n_ + 1 == len(prot) or rl[prot[n_ + 1]].ter_before or prot[n_ + 1] != i + 1)
                    and {"C", "CA", "O"} <= {a.aname() for a in rl[i].atoms}]
            pref = [i for i in ends if rl[i].key[4] in ("ASP", "GLU")] or ends
            if pref:
                i_ = rng.choice(pref)
                have = [a for a in rl[i_].atoms if a.aname() in ("OXT", "O''")]
                oxt = have[0] if have else sources.add_oxt(rl[i_].atoms)
                if oxt is not None:
                    late_oxt = (i_, oxt)
                    desc["events"].append("terminal-oxygen-only-in-later-models")
        # one residue that is itself in one model, a mutant in another and absent from a third
        same_site = None
        if k >= 3 and equal_size is None and tit and rng.random() < 0.25:
            ms_ = rng.sample(range(1, k + 1), 2)
            # (preferably a residue whose mutant brings atom names of its own: GLU -> ASP, GLN -> ASN / GLU, ASN -> ASP,
            # CYS -> SER - a conformation that is completed from both would hold atoms of both)
            own_names = [i for i in prot if rl[i].key[4] in ("GLU", "GLN", "ASN", "CYS")]
            glu_ = [i for i in prot if rl[i].key[4] == "GLU"]           # (GLU -> ASP: both forms are ionizable)
            same_site = (rng.choice(glu_ if glu_ and rng.random() < 0.6 else (own_names or tit)), ms_[0], ms_[1])
            desc["events"].append("one-residue-mutant-in-one-model-and-missing-in-another")
        # a metal site that holds another ion in each model (one chain and residue number, different residue names)
        ion_site = None
        ion_gap = 0
        if rng.random() < 0.15:
            from . import fragments
            names_ = rng.sample(("ZN", "MG", "CA", "MN", "CU"), min(k, 3))
            site = {}
            for nm_ in names_:
                frag_, _e, _d = fragments.place_near(base, "ion:" + nm_, rng, dist_A=3.0, chain="M", resnum=950, min_clear_A=2.4)
                if frag_:
                    site[nm_] = frag_
            if len(site) >= 2:
                first_ = site[sorted(site)[0]][0]
                for nm_, frag_ in site.items():
                    for r_ in frag_:
                        r_.x, r_.y, r_.z = first_.x, first_.y, first_.z
                ion_site = [site[nm_] for nm_ in sorted(site)]
                ion_gap = rng.choice((0, 1, 1, k))       # with three or more models: the site is empty in the first / last one
                desc["events"].append("another-ion-on-one-site-in-each-model")
        for m in range(1, k + 1):
            out.append(pdbio.raw("MODEL     %4d" % m))
            kill_res, mutate, kill_atoms = set(), set(), 0.0
            ev = rng.random()
            if equal_size is not None:
                ev = 1.0
                kill_res.add(equal_size[m - 1])
            if ev < 0.25 and tit:
                mutate.add(rng.choice(tit))
                desc["events"].append("mutant-in-model-%d-of-%d" % (m, k))
            elif ev < 0.45 and len(prot) > 3:
                kill_res.update(rng.sample(prot, rng.choice((1, 2))))
                desc["events"].append("residues-missing-in-model-%d" % m)
            elif ev < 0.6:
                kill_atoms = rng.choice((0.03, 0.1))
                desc["events"].append("atoms-missing-in-model-%d" % m)
            elif ev < 0.68 and len({r.key[1] for r in rl}) > 1:
                c = rng.choice(sorted({r.key[1] for r in rl}))
                kill_res.update(i for i, r in enumerate(rl) if r.key[1] == c)
                desc["events"].append("chain-missing-in-model-%d" % m)
            first = True
            for i, res in enumerate(rl):
                if res.ter_before and not first:
                    out.append(pdbio.raw("TER"))
                first = False
                if i in kill_res or (same_site is not None and i == same_site[0] and m == same_site[2]):
                    continue
                atoms = res.atoms
                if i in mutate or (same_site is not None and i == same_site[0] and m == same_site[1]):
                    atoms = mutate_residue(atoms, rng) or atoms
                if late_oxt is not None and i == late_oxt[0] and i not in mutate and atoms:
                    ox_ = late_oxt[1].copy()
                    ox_.resn = atoms[0].resn          # (the residue may be a mutant in this model)
                    atoms = [a for a in atoms if a.aname() not in ("OXT", "O''")] + ([ox_] if m > 1 else [])
                for a in atoms:
                    if kill_atoms and rng.random() < kill_atoms:
                        continue
                    if m > 1 and a.aname() not in ("N", "CA", "C", "O"):
                        a = jitter(a, rng)
                    out.append(a)
            if ion_site is not None and not (k >= 3 and m == ion_gap):
                out.extend(r_.copy() for r_ in ion_site[(m - 1) % len(ion_site)])
            out.append(pdbio.raw("ENDMDL"))
        return out, desc
    # alternate locations
    tags = rng.choice((ALT_LETTERS, ALT_DIGITS, ALT_LETTERS))
    k = rng.choice((2, 2, 3))
    first_tag = rng.choice((0, 0, 1))          # e.g. tags B,C without an A (conf-alt-BC)
    use = tags[first_tag:first_tag + k]
    desc.update({"k": k, "tags": use})
    nres = max(1, min(len(prot), rng.choice((1, 2, 4))))
    chosen = set(rng.sample(prot, nres))
    forced = {}
    tit_ = [i for i in prot if rl[i].key[4] in MUTATE_TO and rl[i].key[4] in ("ASP", "GLU", "HIS", "LYS", "ARG", "TYR", "CYS")]
    if len(use) == 3 and len(prot) >= 2 and tit_ and rng.random() < 0.4:
        # labels that first appear out of sorted order: an early residue with the first and third label, a
        # later ionizable one with the first and second, one of whose states is a point mutant
        late = rng.choice(tit_)
        early = [i for i in prot if i < late]
        if early:
            e = rng.choice(early)
            chosen = {e, late}
            forced = {e: ([use[0], use[2]], "full"), late: ([use[0], use[1]], "mutant")}
            desc["events"].append("altloc-labels-out-of-order")
    out = []
    first = True
    for i, res in enumerate(rl):
        if res.ter_before and not first:
            out.append(pdbio.raw("TER"))
        first = False
        if i not in chosen:
            out.extend(res.atoms)
            continue
        style = rng.choice(("full", "sidechain", "mutant"))
        # with three states a residue may carry only two of them (A/C here, A/B further down: the labels
        # then do not first appear in sorted order)
        use_here = use if len(use) < 3 or rng.random() < 0.5 else [t for t in use if t in rng.sample(list(use), 2)]
        if i in forced:
            use_here, style = forced[i]
        if use_here is not use:
            desc["events"].append("altloc-subset-%s" % "".join(use_here))
        for j, t in enumerate(use_here):
            atoms = res.atoms
            if style == "mutant" and j == rng.randrange(len(use_here)):
                mut = mutate_residue(atoms, rng)
                if mut:
                    atoms = mut
                    desc["events"].append("altloc-mutant-tag-%s" % t)
            for a in atoms:
                if style == "sidechain" and a.aname() in ("N", "CA", "C", "O"):
                    if j == 0:
                        out.append(a)
                    continue
                a = jitter(a, rng) if j > 0 else a.copy()
                a.alt = t
                out.append(a)
        desc["events"].append("altloc-%s" % style)
    return out, desc


def _blank_alt(r):
    if r.alt != " ":
        r = r.copy()
        r.alt = " "
    return r


# ------------------------------------------------------------------ oracles
def gkey(g):
    a = g["aid"]
    return (a[1], a[2], a[3], a[5], g["type"])


def det_by_label(g):
    out = {}
    for t, lst in g["det"].items():
        for d in lst:
            out[(t, d[2])] = out.get((t, d[2]), 0.0) + d[3]
    return out


def check_average(rec, viol, counts, classes, tol=1e-7):
    """(i) AVR == mean over the conformations that have the group; (ii) every reported group of
    any conformation is in AVR exactly once."""
    names = rec["names"]
    per = {}
    for n in names:
        for g in rec["confs"][n]["groups"]:
            if g["use"]:
                per.setdefault(gkey(g), {}).setdefault(n, []).append(g)
    avr = {}
    for g in rec["confs"]["AVR"]["groups"]:
        avr.setdefault(gkey(g), []).append(g)
    for k, byconf in per.items():
        counts["avr_groups_checked"] = counts.get("avr_groups_checked", 0) + 1
        if any(len(v) > 1 for v in byconf.values()):
            counts["ambiguous_groups"] = counts.get("ambiguous_groups", 0) + 1
            continue
        gs = [v[0] for v in byconf.values()]
        n = len(gs)
        if n < len(names):
            classes.append("group-in-proper-subset-of-conformations")
        a = avr.get(k, [])
        if len(a) != 1:
            cls = "avr-group-missing" if not a else "avr-group-duplicated"
            viol.append({"cls": cls, "msg": "group %s (%s) exists in conformations %r but appears %d times in AVR" % (
                gs[0]["label"], gs[0]["type"], sorted(byconf), len(a)), "detail": {"in_first": names[0] in byconf},
                "res": (k[0], k[1])})
            continue
        a = a[0]
        bad = []
        for fld in ("pka", "E_vol", "E_loc", "buried", "n_vol"):
            mean = sum(g[fld] for g in gs) / n
            if abs(a[fld] - mean) > tol:
                bad.append("%s %.6f, mean of %d conformations %.6f" % (fld, a[fld], n, mean))
        if abs(a["model_pka"] - gs[0]["model_pka"]) > tol:
            bad.append("model pKa %.3f vs %.3f" % (a["model_pka"], gs[0]["model_pka"]))
        want = {}
        for g in gs:
            for kk, v in det_by_label(g).items():
                want[kk] = want.get(kk, 0.0) + v / n
        have = det_by_label(a)
        for kk in set(want) | set(have):
            if abs(want.get(kk, 0.0) - have.get(kk, 0.0)) > tol:
                bad.append("determinant %r %.6f, mean %.6f" % (kk, have.get(kk, 0.0), want.get(kk, 0.0)))
                break
        # rows: the average lists a partner no more often than some conformation does (one row holding the
        # mean - not one row per conformation with a share of it)
        def rows_by_label(g_):
            out_ = {}
            for t_, lst_ in g_["det"].items():
                for d_ in lst_:
                    out_[(t_, d_[2])] = out_.get((t_, d_[2]), 0) + 1
            return out_
        have_rows = rows_by_label(a)
        most = {}
        for g in gs:
            for kk, c_ in rows_by_label(g).items():
                most[kk] = max(most.get(kk, 0), c_)
        counts["avr_determinant_rows_counted"] = counts.get("avr_determinant_rows_counted", 0) + sum(have_rows.values())
        for kk, c_ in have_rows.items():
            if c_ > most.get(kk, 0) and not bad:
                bad.append("determinant %r is listed %d times, at most %d time(s) in any conformation" % (kk, c_, most.get(kk, 0)))
        if bad:
            viol.append({"cls": "avr-not-the-mean", "msg": "group %s present in %d of %d conformations: %s" % (
                a["label"], n, len(names), "; ".join(bad[:3])), "detail": {"present": n, "of": len(names)}, "res": (k[0], k[1])})
    for k, a in avr.items():
        if k not in per:
            viol.append({"cls": "avr-group-from-nowhere", "msg": "AVR reports %s which no conformation reports" % a[0]["label"]})


def check_topup(rec, text, ignore, viol, counts, classes):
    """(iv) top-up: own atoms untouched; atoms of other conformations added when the residue type
    is compatible; never two residue names on one residue."""
    own = own_atoms(text, ignore)
    names = rec["names"]
    if set(own) != set(names):
        viol.append({"cls": "conformation-set", "msg": "input defines conformations %r, program has %r" % (sorted(own), names)})
        return
    # twins (same chain+number, different insertion code) are the subject of a known finding
    everything = {}
    res_types = {}          # residue id -> {conformation: set of residue names}
    for n, lst in own.items():
        for ident, akey, resn in lst:
            everything.setdefault(ident, {}).setdefault(n, (akey, resn.strip()))
            res_types.setdefault(ident[:3], {}).setdefault(n, set()).add(resn.strip())
    for n in names:
        conf = rec["confs"][n]
        have = {}
        resnames = {}
        for h in conf["heavy"]:
            a = h["aid"]
            ident = (a[1] if a[1] != "_" else " ", a[2], a[3], a[5])
            have.setdefault(ident, []).append((tuple(h["akey"]), a[4].strip()))
            resnames.setdefault(ident[:3], set()).add(a[4].strip())
        for rid, s in resnames.items():
            counts["topup_residues_checked"] = counts.get("topup_residues_checked", 0) + 1
            if len(s) > 1:
                viol.append({"cls": "topup-merges-residue-types", "msg": "conformation %s: residue %r carries residue names %r" % (n, rid, sorted(s))})
        own_res = {}
        for ident, akey, resn in own[n]:
            resn = resn.strip()
            own_res.setdefault(ident[:3], set()).add(resn)
            if (akey, resn) not in have.get(ident, []):
                viol.append({"cls": "topup-touches-own-atoms", "msg": "conformation %s: own atom %r at %r missing or moved" % (n, ident, akey)})
        for ident, where in everything.items():
            if n in where:
                continue
            counts["topup_candidates"] = counts.get("topup_candidates", 0) + 1
            others = {resn for (akey, resn) in where.values()}
            mine = own_res.get(ident[:3])
            compatible = [resn for resn in others if mine is None or resn in mine]
            got = have.get(ident, [])
            if compatible and mine is not None and len(mine) == 1 or (compatible and mine is None):
                # must be present, with coordinates taken from one of the other conformations
                elsewhere = set()
                for cn, types in res_types.get(ident[:3], {}).items():
                    if cn != n:
                        elsewhere |= types
                if mine is None and len(elsewhere) > 1:
                    continue          # residue absent here and of several types elsewhere: either is fine
                if not got:
                    viol.append({"cls": "topup-atom-missing", "msg": "conformation %s lacks atom %r although it is present in %r with a compatible residue type" % (
                        n, ident, sorted(where)), "res": (ident[0], ident[1])})
                    classes.append("topup-needed")
                else:
                    classes.append("topup-needed")
                    if got[0][0] not in [w[0] for w in where.values()]:
                        viol.append({"cls": "topup-atom-invented", "msg": "conformation %s: atom %r has coordinates %r found in no conformation" % (n, ident, got[0][0])})
                    else:
                        # ... from the earliest conformation (in the order of the conformation names) that holds the atom
                        # in a residue of the right type
                        donors = [cn for cn in names if cn in where and (mine is None or where[cn][1] in mine)]
                        if donors and got[0][0] != where[donors[0]][0] and len({w[0] for w in where.values()}) > 1:
                            viol.append({"cls": "topup-takes-a-later-donor", "msg": "conformation %s: atom %r was completed with the position it has in another conformation than %s, the earliest that holds it" % (
                                n, ident, donors[0]), "res": (ident[0], ident[1])})
            elif not compatible and mine is not None:
                # incompatible residue type: must not be copied
                if got and any(rn not in mine for (_, rn) in got):
                    viol.append({"cls": "topup-merges-residue-types", "msg": "conformation %s: atom %r of residue type %r copied into a %r residue" % (
                        n, ident, sorted(others), sorted(mine))})
                classes.append("topup-incompatible-skipped")
