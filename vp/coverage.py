"""One-shot line coverage of the propka package through sys.monitoring (3.12+): every line
event is disabled after its first hit, so the cost is paid once per line per worker. Used only
as evidence of what the workload reached (anchor files of the property)."""
import os
import sys

_HITS = set()
_ON = False


def start(repo):
    global _ON
    mon = getattr(sys, "monitoring", None)
    if mon is None or _ON:
        return False
    root = os.path.join(os.path.realpath(repo), "propka") + os.sep
    tool = mon.COVERAGE_ID
    try:
        mon.use_tool_id(tool, "vp-coverage")
    except ValueError:
        return False

    def on_line(code, lineno):
        fn = code.co_filename
        if fn.startswith(root):
            _HITS.add((fn[len(root):], lineno))
        return mon.DISABLE
    mon.register_callback(tool, mon.events.LINE, on_line)
    mon.set_events(tool, mon.events.LINE)
    _ON = True
    return True


def hits():
    out = {}
    for fn, ln in _HITS:
        out.setdefault(fn, []).append(ln)
    return {k: sorted(v) for k, v in out.items()}


def executable_lines(path):
    """Line numbers that carry code in a source file (all nested code objects)."""
    with open(path) as fh:
        src = fh.read()
    top = compile(src, path, "exec")
    lines = set()
    stack = [top]
    while stack:
        co = stack.pop()
        for _, _, ln in co.co_lines():
            if ln is not None and ln > 0:
                lines.add(ln)
        for c in co.co_consts:
            if hasattr(c, "co_lines"):
                stack.append(c)
    return lines
