"""Observation record of one execution of the real code, taken at the API boundary
(after propka.run.single returns), plus the parser of the written .pka text and the
record comparator (DESIGN 3.1, 3.4)."""
import io
import logging
import math
import os
import re
import shutil
import tempfile

FLOAT_TOL = 1e-7


# ------------------------------------------------------------------ log capture
class _Capture(logging.Handler):
    def __init__(self, level=logging.WARNING):
        super().__init__(level)
        self.records = []

    def emit(self, record):
        try:
            msg = record.getMessage()
        except Exception:  # pragma: no cover
            msg = str(record.msg)
        self.records.append((record.name, record.levelname, msg))


class capture_logs:
    """Collect records of logger 'propka' at >= level while the block runs."""

    def __init__(self, level=logging.WARNING, debug_iterative=False):
        self.level = level
        self.debug_iterative = debug_iterative

    def __enter__(self):
        self.h = _Capture(self.level)
        self.logger = logging.getLogger("propka")
        self.logger.addHandler(self.h)
        self.old = self.logger.level
        self.old_prop = self.logger.propagate
        self.logger.propagate = False
        self.it = None
        if self.debug_iterative:
            self.it = logging.getLogger("propka.iterative")
            self.it_old = self.it.level
            self.it.setLevel(logging.DEBUG)
            self.h.setLevel(logging.DEBUG)
        return self.h

    def __exit__(self, *exc):
        self.logger.removeHandler(self.h)
        self.logger.setLevel(self.old)
        self.logger.propagate = self.old_prop
        if self.it is not None:
            self.it.setLevel(self.it_old)
        return False


# ------------------------------------------------------------------ execution
def milli(v):
    return int(round(v * 1000.0))


def akey_of(atom):
    return (atom.name, milli(atom.x), milli(atom.y), milli(atom.z))


def aid_of(atom):
    return (atom.type, atom.chain_id, atom.res_num, atom.icode, atom.res_name, atom.name)


def group_record(g):
    det = {}
    for t in ("sidechain", "backbone", "coulomb"):
        det[t] = [(akey_of(d.group.atom), d.group.label, d.label, float(d.value),
                   float(getattr(d.group, "charge", getattr(d.group, "q", 0.0))),
                   aid_of(d.group.atom))
                  for d in g.determinants[t]]
    ctg = g.coupled_titrating_group
    return {
        "label": g.label, "type": g.type, "rtype": g.residue_type,
        "akey": akey_of(g.atom), "aid": aid_of(g.atom),
        "titratable": bool(g.titratable), "charge": float(g.charge),
        "model_pka": float(g.model_pka), "pka": float(g.pka_value),
        "E_vol": float(g.energy_volume), "n_vol": float(g.num_volume),
        "E_loc": float(g.energy_local), "n_loc": float(g.num_local),
        "buried": float(g.buried), "bridge": bool(g.atom.cysteine_bridge),
        "use": bool(g.use_in_calculations()),
        "cov": [akey_of(o.atom) for o in g.covalently_coupled_groups],
        "ncov": [akey_of(o.atom) for o in g.non_covalently_coupled_groups],
        "ctg": akey_of(ctg.atom) if ctg else None,
        "ctg_label": ctg.label if ctg else None,
        "center": (float(g.x), float(g.y), float(g.z)),
        "det": det,
        "terminal": g.atom.terminal,
        "ccc": bool(getattr(g, "common_charge_centre", False)),
    }


def conformation_record(conf, with_atoms=False):
    rec = {"groups": [group_record(g) for g in conf.groups],
           "chains": list(conf.chains),
           "nccg": bool(conf.non_covalently_coupled_groups)}
    if with_atoms:
        heavy, hyd, bonds = [], [], set()
        for a in conf.atoms:
            if a.element == "H":
                parents = [b for b in a.bonded_atoms]
                hyd.append({"name": a.name, "xyz": (a.x, a.y, a.z),
                            "parents": [akey_of(p) for p in parents],
                            "parent_elems": [p.element for p in parents],
                            "parent_aid": aid_of(parents[0]) if parents else None,
                            "aid": aid_of(a), "type": a.type})
            else:
                heavy.append({"akey": akey_of(a), "aid": aid_of(a), "elem": a.element,
                              "sybyl": a.sybyl_type, "terminal": a.terminal,
                              "bridge": bool(a.cysteine_bridge)})
                for b in a.bonded_atoms:
                    if b.element != "H":
                        k1, k2 = akey_of(a), akey_of(b)
                        bonds.add((k1, k2) if k1 <= k2 else (k2, k1))
        rec["heavy"] = heavy
        rec["hydrogens"] = hyd
        rec["bonds"] = sorted(bonds)
    return rec


class Run:
    """Result of one execution: molecule (live), record (plain data), text, logs."""
    __slots__ = ("mol", "rec", "text", "logs", "exc", "exc_type", "wall")


def _single_with_hook(filename, optargs, stream, write_pka, hook):
    """propka.run.single, step by step through the public building blocks, with `hook(options)` applied to
    the Options object before the molecule is built (API users set options attributes directly)."""
    from propka.lib import loadOptions
    from propka.input import read_parameter_file, read_molecule_file
    from propka.parameters import Parameters
    from propka.molecular_container import MolecularContainer
    options = loadOptions(tuple(optargs) + (filename,))
    hook(options)
    parameters = read_parameter_file(options.parameters, Parameters())
    options.filenames = [filename]
    mol = MolecularContainer(parameters, options)
    mol = read_molecule_file(filename, mol, stream=stream)
    mol.calculate_pka()
    if write_pka:
        mol.write_pka()
    return mol


def run_single(text, optargs=(), name="case.pdb", as_path=False, write_pka=True,
               with_atoms=False, keep_mol=False, log_level=logging.WARNING,
               debug_iterative=False, profiles=False, workdir=None, options_hook=None):
    """Execute propka.run.single on PDB text in a private directory; never raises."""
    import time
    import propka.run
    r = Run()
    r.mol = None
    r.text = None
    r.exc = None
    r.exc_type = None
    t0 = time.time()
    cwd = os.getcwd()
    tmp = workdir or tempfile.mkdtemp(prefix="vpobs-")
    if not as_path and options_hook is None and name == "case.pdb" and os.environ.get("VERIF_AMBIENT", "1") != "0":
        # ambient variation: every fourth input (decided by its content, so a replay repeats it) is
        # handed over as a file on disk instead of a text stream - the two doors must be equivalent
        import zlib
        as_path = zlib.crc32(text.encode()) % 4 == 0
    try:
        os.chdir(tmp)
        with capture_logs(log_level, debug_iterative) as h:
            try:
                if as_path:
                    with open(os.path.join(tmp, name), "w") as fh:
                        fh.write(text)
                    mol = propka.run.single(os.path.join(tmp, name), tuple(optargs),
                                            write_pka=write_pka)
                elif options_hook is not None:
                    mol = _single_with_hook(name, tuple(optargs), io.StringIO(text), write_pka, options_hook)
                else:
                    mol = propka.run.single(name, tuple(optargs), stream=io.StringIO(text),
                                            write_pka=write_pka)
            except BaseException as e:  # noqa - the exception type is the observation
                if isinstance(e, (KeyboardInterrupt, MemoryError)):
                    raise
                mol = None
                r.exc = "%s: %s" % (type(e).__name__, str(e)[:300])
                r.exc_type = type(e).__name__
        r.logs = h.records
        if mol is not None and write_pka:
            stem = os.path.splitext(os.path.basename(name))[0]
            cands = [f for f in os.listdir(tmp) if f.endswith(".pka") and f.startswith(stem)]
            if cands:
                with open(os.path.join(tmp, sorted(cands)[0])) as fh:
                    r.text = fh.read()
        r.rec = record_of(mol, with_atoms=with_atoms, profiles=profiles) if mol else None
        if r.rec is not None:
            r.rec["warnings"] = [m for (_, lvl, m) in r.logs if lvl in ("WARNING", "ERROR")]
        r.mol = mol if keep_mol else None
    finally:
        os.chdir(cwd)
        if workdir is None:
            shutil.rmtree(tmp, ignore_errors=True)
    r.wall = time.time() - t0
    return r


def run_main(files, optargs=()):
    """propka.run.main on several files in ONE invocation (one shared options object).
    files: list of (name, text). Returns ({name: .pka text or None}, exception type or None)."""
    import propka.run
    tmp = tempfile.mkdtemp(prefix="vpmain-")
    cwd = os.getcwd()
    exc = None
    out = {}
    try:
        os.chdir(tmp)
        for name, text in files:
            with open(os.path.join(tmp, name), "w") as fh:
                fh.write(text)
        names = [n for n, _ in files]
        args = list(optargs) + ["-q"] + sum((["-f", f] for f in names[:-1]), []) + [names[-1]]
        with capture_logs(logging.WARNING, False):
            try:
                propka.run.main([args])
            except BaseException as e:  # noqa
                if isinstance(e, (KeyboardInterrupt, MemoryError)):
                    raise
                exc = type(e).__name__
        for name in names:
            stem = os.path.splitext(name)[0]
            cands = sorted(f for f in os.listdir(tmp) if f.endswith(".pka") and f.startswith(stem))
            out[name] = open(os.path.join(tmp, cands[0])).read() if cands else None
    finally:
        os.chdir(cwd)
        shutil.rmtree(tmp, ignore_errors=True)
    return out, exc


def record_of(mol, with_atoms=False, profiles=False):
    rec = {"names": list(mol.conformation_names), "confs": {}}
    for name in list(mol.conformation_names) + ["AVR"]:
        if name in mol.conformations:
            rec["confs"][name] = conformation_record(
                mol.conformations[name], with_atoms=with_atoms and name != "AVR")
    if profiles:
        grid = tuple(mol.options.grid)
        rec["charge_profile"] = [list(map(float, row)) for row in
                                 mol.get_charge_profile(conformation="AVR", grid=grid)]
        prof, opt, r80, stab = mol.get_folding_profile(conformation="AVR", grid=grid)
        rec["folding_profile"] = [list(map(float, p)) for p in prof]
        rec["folding_opt"] = list(opt)
        rec["folding_r80"] = list(r80)
        rec["folding_stab"] = list(stab)
        rec["pi"] = list(mol.get_pi(conformation="AVR"))
    return rec


# ------------------------------------------------------------------ .pka text parser
_DET_CELL = re.compile(r"\s*(-?\d+\.\d\d) (.{3})(.{4}) (.)")


def strip_date(text):
    """Drop the header line that carries today's date."""
    lines = text.split("\n")
    return "\n".join(l for l in lines if not l.startswith("propka"))


def parse_pka_text(text):
    """Parse the written .pka file into its sections."""
    out = {"det_rows": [], "summary": [], "folding": [], "charge": [], "pi": None,
           "opt": None, "r80": None, "stab": None, "coupled_warning": False,
           "folding_header": None}
    lines = text.split("\n")
    i = 0
    n = len(lines)
    # determinant section
    while i < n and not lines[i].startswith(" RESIDUE    pKa"):
        i += 1
    i += 2
    while i < n and not lines[i].startswith("-----"):
        l = lines[i]
        if l.startswith("Coupled residues"):
            out["coupled_warning"] = True
        elif l.startswith("or -d option"):
            pass
        elif l.strip():
            out["det_rows"].append(l)
        i += 1
    # summary
    while i < n and not lines[i].startswith("       Group      pKa"):
        i += 1
    i += 1
    while i < n and not lines[i].startswith("-----"):
        l = lines[i]
        if l.strip():
            out["summary"].append(l)
        i += 1
    # folding profile
    while i < n and not lines[i].startswith("Free energy of"):
        i += 1
    if i < n:
        out["folding_header"] = lines[i]
    i += 1
    while i < n and lines[i].strip():
        parts = lines[i].split()
        if len(parts) == 2:
            out["folding"].append((float(parts[0]), float(parts[1])))
        i += 1
    for l in lines[i:]:
        m = re.match(r"The pH of optimum stability is\s*(-?[\d.]+) for which the free energy"
                     r" is\s*(-?[\d.]+) kcal/mol", l)
        if m:
            out["opt"] = (float(m.group(1)), float(m.group(2)))
        m = re.match(r"The free energy is within 80 % of maximum at pH\s*(-?[\d.]+) to\s*(-?[\d.]+)", l)
        if m:
            out["r80"] = (float(m.group(1)), float(m.group(2)))
        m = re.match(r"The free energy is negative in the range\s*(-?[\d.]+) -\s*(-?[\d.]+)", l)
        if m:
            out["stab"] = (float(m.group(1)), float(m.group(2)))
        m = re.match(r"The pI is\s*(-?[\d.]+) \(folded\) and\s*(-?[\d.]+) \(unfolded\)", l)
        if m:
            out["pi"] = (float(m.group(1)), float(m.group(2)))
    # charge table
    j = 0
    while j < n and not lines[j].startswith("    pH  unfolded  folded"):
        j += 1
    j += 1
    while j < n:
        parts = lines[j].split()
        if len(parts) != 3:
            break
        try:
            out["charge"].append(tuple(float(p) for p in parts))
        except ValueError:
            break
        j += 1
    return out


def parse_det_rows(rows):
    """Determinant table rows -> list of groups:
    {label, pka, star, buried, E_vol, n_vol, E_loc, n_loc, cells: {type: [(value,label)]}}"""
    groups = []
    cur = None
    for l in rows:
        label = l[:9]
        rest = l[9:]
        first = rest[:40]
        cells = rest[40:]
        if first.strip():
            m = re.match(r" \s*(-?\d+\.\d\d)([* ]) \s*(-?\d+) % \s*(-?\d+\.\d\d) \s*(-?\d+) "
                         r"\s*(-?\d+\.\d\d) \s*(-?\d+)", first)
            if not m:
                raise ValueError("cannot parse determinant row: %r" % l)
            cur = {"label": label, "pka": float(m.group(1)), "star": m.group(2) == "*",
                   "buried": int(m.group(3)), "E_vol": float(m.group(4)),
                   "n_vol": int(m.group(5)), "E_loc": float(m.group(6)),
                   "n_loc": int(m.group(7)),
                   "cells": {"sidechain": [], "backbone": [], "coulomb": []}, "nrows": 0}
            groups.append(cur)
        elif cur is None or cur["label"] != label:
            raise ValueError("continuation row without a group: %r" % l)
        cur["nrows"] += 1
        # three cells of width 18: '%8.2f %s' with a 9-character label
        for k, t in enumerate(("sidechain", "backbone", "coulomb")):
            cell = cells[k * 18:(k + 1) * 18]
            val = float(cell[:8])
            lab = cell[9:18]
            if lab == "XXX   0 X":
                continue
            cur["cells"][t].append((val, lab))
    return groups


def parse_summary(rows):
    out = []
    for l in rows:
        label = l[3:12]
        m = re.match(r"\s*(-?\d+\.\d\d)\s+(-?\d+\.\d\d)\s*(.*)$", l[12:])
        if not m:
            raise ValueError("cannot parse summary row: %r" % l)
        out.append({"label": label, "pka": float(m.group(1)), "model": float(m.group(2)),
                    "rest": m.group(3).strip()})
    return out


# ------------------------------------------------------------------ comparator
def feq(a, b, tol=FLOAT_TOL):
    if a is None or b is None:
        return a is b
    if isinstance(a, float) and (math.isnan(a) or math.isnan(b)):
        return math.isnan(a) and math.isnan(b)
    return abs(a - b) <= tol


def det_multiset(g, keymap=None):
    """Determinants of a group record as {(type, partner key): summed value}."""
    out = {}
    for t, lst in g["det"].items():
        for d in lst:
            k = d[0]
            if keymap is not None:
                k = keymap(k)
            out[(t, tuple(k))] = out.get((t, tuple(k)), 0.0) + d[3]
    return out


GROUP_SCALARS = ("type", "rtype", "titratable", "charge", "model_pka", "bridge", "use")
GROUP_FLOATS = ("pka", "E_vol", "E_loc", "buried")


def compare_groups(ga, gb, keymap=None, tol=FLOAT_TOL, skip=(), what=GROUP_FLOATS,
                   counts=True, dets=True):
    """Differences between two group records (b's partner keys mapped through keymap)."""
    diffs = []
    for k in GROUP_SCALARS:
        if k in skip:
            continue
        if ga[k] != gb[k]:
            diffs.append((k, ga[k], gb[k]))
    for k in what:
        if k in skip:
            continue
        if not feq(ga[k], gb[k], tol):
            diffs.append((k, ga[k], gb[k]))
    if counts and "n_vol" not in skip:
        if ga["n_vol"] != gb["n_vol"]:
            diffs.append(("n_vol", ga["n_vol"], gb["n_vol"]))
    if dets:
        da = det_multiset(ga)
        db = det_multiset(gb, keymap)
        for k in set(da) | set(db):
            if not feq(da.get(k, 0.0), db.get(k, 0.0), tol):
                diffs.append(("det", k, da.get(k), db.get(k)))
            elif (k in da) != (k in db):
                # a listed determinant of value 0.00 is still a row of the output
                diffs.append(("det-listed", k, da.get(k), db.get(k)))
        # every determinant is a row of the output: the same value split over two rows is a difference
        na, nb = det_rows(ga), det_rows(gb, keymap)
        for k in set(na) | set(nb):
            if na.get(k, 0) != nb.get(k, 0) and k in da and k in db:
                diffs.append(("det-rows", k, na.get(k, 0), nb.get(k, 0)))
    return diffs


def det_rows(g, keymap=None):
    """Number of determinant entries per (type, partner key)."""
    out = {}
    for t, lst in g["det"].items():
        for d in lst:
            k = d[0]
            if keymap is not None:
                k = keymap(k)
            out[(t, tuple(k))] = out.get((t, tuple(k)), 0) + 1
    return out


def index_groups(conf_rec, keyf=None):
    """{(akey, type): group record}; duplicates are reported under key '__dups__'."""
    out = {}
    dups = []
    for g in conf_rec["groups"]:
        k = (tuple(g["akey"]), g["type"]) if keyf is None else keyf(g)
        if k in out:
            dups.append(k)
        out[k] = g
    return out, dups


def compare_confs(ca, cb, map_b_to_a=None, tol=FLOAT_TOL, skip=(), only=None, dets=True):
    """Compare all groups of two conformation records. map_b_to_a maps an atom key of
    record b onto the key space of record a."""
    km = (lambda k: tuple(map_b_to_a(tuple(k)))) if map_b_to_a else (lambda k: tuple(k))
    ia, dupa = index_groups(ca)
    ib, dupb = index_groups(cb, keyf=lambda g: (km(g["akey"]), g["type"]))
    diffs = []
    for d in dupa:
        diffs.append(("duplicate-group-a", d))
    for d in dupb:
        diffs.append(("duplicate-group-b", d))
    for k in ia:
        if only is not None and not only(ia[k]):
            continue
        if k not in ib:
            diffs.append(("missing-in-b", k, ia[k]["label"]))
            continue
        for d in compare_groups(ia[k], ib[k], keymap=km, tol=tol, skip=skip, dets=dets):
            diffs.append(("group", k, ia[k]["label"]) + tuple(d))
    for k in ib:
        if only is not None and not only(ib[k]):
            continue
        if k not in ia:
            diffs.append(("missing-in-a", k, ib[k]["label"]))
    return diffs


def brief(diffs, n=6):
    out = []
    for d in diffs[:n]:
        out.append(repr(d)[:300])
    if len(diffs) > n:
        out.append("... %d more" % (len(diffs) - n))
    return out


def compare_runs(ra, rb, map_b_to_a=None, tol=FLOAT_TOL, skip=(), text=False, only=None,
                 dets=True, conf_map=None):
    """Differences between two executions (exception type, conformation names, every
    conformation incl. AVR, optionally the .pka text minus the date line)."""
    diffs = []
    if (ra.exc_type or rb.exc_type):
        if ra.exc_type != rb.exc_type:
            diffs.append(("exception", ra.exc, rb.exc))
        return diffs
    na, nb = ra.rec["names"], rb.rec["names"]
    if conf_map is None and na != nb:
        diffs.append(("conformation-names", na, nb))
        return diffs
    for name in list(na) + ["AVR"]:
        other = conf_map.get(name, name) if conf_map else name
        if other not in rb.rec["confs"]:
            diffs.append(("conformation-missing", other))
            continue
        for d in compare_confs(ra.rec["confs"][name], rb.rec["confs"][other], map_b_to_a, tol, skip,
                               only, dets):
            diffs.append((name,) + tuple(d))
    if text and ra.text is not None:
        if strip_date(ra.text) != strip_date(rb.text or ""):
            la = strip_date(ra.text).split("\n")
            lb = strip_date(rb.text or "").split("\n")
            first = next(((x, y) for x, y in zip(la, lb) if x != y), (len(la), len(lb)))
            diffs.append(("pka-text", first))
    return diffs
