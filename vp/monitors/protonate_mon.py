"""C17 monitors: contract on Protonate.add_proton (X-H length, one parent, siblings apart) and
the completeness check for regular residues derived from the perceived heavy-atom bonds."""
import math

from .. import contracts

BOND_LENGTH = {"C": 1.09, "N": 1.01, "O": 0.96, "F": 0.92, "Cl": 1.27, "Br": 1.41, "I": 1.61, "S": 1.35}
DEFAULT_LENGTH = 1.0
ROUND_TOL = math.sqrt(3.0) * 0.0005 + 1e-9

SIDE_BONDS = {
    "ALA": "CA-CB", "ARG": "CA-CB CB-CG CG-CD CD-NE NE-CZ CZ-NH1 CZ-NH2",
    "ASN": "CA-CB CB-CG CG-OD1 CG-ND2", "ASP": "CA-CB CB-CG CG-OD1 CG-OD2", "CYS": "CA-CB CB-SG",
    "GLN": "CA-CB CB-CG CG-CD CD-OE1 CD-NE2", "GLU": "CA-CB CB-CG CG-CD CD-OE1 CD-OE2", "GLY": "",
    "HIS": "CA-CB CB-CG CG-ND1 CG-CD2 ND1-CE1 CD2-NE2 CE1-NE2", "ILE": "CA-CB CB-CG1 CB-CG2 CG1-CD1",
    "LEU": "CA-CB CB-CG CG-CD1 CG-CD2", "LYS": "CA-CB CB-CG CG-CD CD-CE CE-NZ", "MET": "CA-CB CB-CG CG-SD SD-CE",
    "PHE": "CA-CB CB-CG CG-CD1 CG-CD2 CD1-CE1 CD2-CE2 CE1-CZ CE2-CZ", "PRO": "CA-CB CB-CG CG-CD CD-N",
    "SER": "CA-CB CB-OG", "THR": "CA-CB CB-OG1 CB-CG2",
    "TRP": "CA-CB CB-CG CG-CD1 CG-CD2 CD1-NE1 NE1-CE2 CD2-CE2 CD2-CE3 CE2-CZ2 CE3-CZ3 CZ2-CH2 CZ3-CH2",
    "TYR": "CA-CB CB-CG CG-CD1 CG-CD2 CD1-CE1 CD2-CE2 CE1-CZ CE2-CZ CZ-OH", "VAL": "CA-CB CB-CG1 CB-CG2",
}
BACKBONE = "N-CA CA-C C-O"
EXPECTED_H = {"HIS": {"ND1": 1, "NE2": 1}, "ARG": {"NE": 1, "NH1": 2, "NH2": 2}, "ASN": {"ND2": 2},
              "GLN": {"NE2": 2}, "TRP": {"NE1": 1}}


def _pairs(s):
    out = set()
    for p in s.split():
        a, b = p.split("-")
        out.add((a, b) if a <= b else (b, a))
    return out


TEMPLATE = {k: _pairs(v + " " + BACKBONE) for k, v in SIDE_BONDS.items()}


def install():
    import propka.protonate as pp

    def post(snap, result, exc, args, kwargs):
        if exc is not None:
            contracts.report("add-proton-raised", "add_proton raised %r" % exc)
            return
        atom = args[0] if args else kwargs["atom"]
        contracts.count("add_proton_contract")
        hs = [b for b in atom.bonded_atoms if b.element == "H"]
        if not hs:
            contracts.report("proton-not-attached", "no hydrogen on %s after add_proton" % atom)
            return
        h = atom.bonded_atoms[-1]
        if h.element != "H":
            contracts.report("proton-not-attached", "last bonded atom of %s is not the new hydrogen" % atom)
            return
        if len(h.bonded_atoms) != 1 or h.bonded_atoms[0] is not atom:
            contracts.report("proton-parents", "new hydrogen on %s has %d bonded atoms" % (atom, len(h.bonded_atoms)))
        L = BOND_LENGTH.get(atom.element, DEFAULT_LENGTH)
        d = math.sqrt((h.x - atom.x) ** 2 + (h.y - atom.y) ** 2 + (h.z - atom.z) ** 2)
        if not abs(d - L) <= ROUND_TOL:
            contracts.report("proton-bond-length", "hydrogen on %s at %.5f A, tabulated %s-H length %.2f" % (atom, d, atom.element, L))
        for o in hs:
            if o is h:
                continue
            dd = math.sqrt((h.x - o.x) ** 2 + (h.y - o.y) ** 2 + (h.z - o.z) ** 2)
            if dd < 0.5:
                contracts.report("protons-coincide", "two hydrogens on %s are %.4f A apart" % (atom, dd))
        if not all(math.isfinite(v) for v in (h.x, h.y, h.z)):
            contracts.report("proton-not-finite", "hydrogen on %s at %r" % (atom, (h.x, h.y, h.z)))
    contracts.install(pp, "add_proton", post=post, owner=pp.Protonate)


def check_hydrogens_boundary(conf, viol, counts, program_built=True):
    """Every hydrogen of the conformation record: one parent, tabulated length, siblings apart."""
    by_parent = {}
    for h in conf["hydrogens"]:
        counts["hydrogens_checked"] = counts.get("hydrogens_checked", 0) + 1
        if len(h["parents"]) != 1:
            viol.append({"cls": "proton-parents", "msg": "hydrogen %s %r has %d bonded atoms" % (h["name"], h["xyz"], len(h["parents"]))})
            continue
        p = h["parents"][0]
        L = BOND_LENGTH.get(h["parent_elems"][0], DEFAULT_LENGTH)
        d = math.sqrt((h["xyz"][0] - p[1] / 1000.0) ** 2 + (h["xyz"][1] - p[2] / 1000.0) ** 2 + (h["xyz"][2] - p[3] / 1000.0) ** 2)
        if not abs(d - L) <= ROUND_TOL:
            viol.append({"cls": "proton-bond-length", "msg": "hydrogen %s on %r at %.5f A, tabulated length %.2f" % (h["name"], p, d, L)})
        by_parent.setdefault(tuple(p), []).append(h)
    for p, hs in by_parent.items():
        for i in range(len(hs)):
            for j in range(i + 1, len(hs)):
                dd = math.sqrt(sum((hs[i]["xyz"][k] - hs[j]["xyz"][k]) ** 2 for k in range(3)))
                if dd < 0.5:
                    viol.append({"cls": "protons-coincide", "msg": "hydrogens on %r are %.4f A apart" % (p, dd)})
    return by_parent


def regular_residues(conf):
    """Residues (ATOM records) whose perceived heavy-atom bond graph equals the template and whose
    only inter-residue bonds are peptide C-N links and SG-SG. Returns
    {resid: {'resname','atoms': {name: akey}, 'amide': bool}}."""
    atoms = {}
    for h in conf["heavy"]:
        atoms[tuple(h["akey"])] = h
    res = {}
    for k, h in atoms.items():
        aid = h["aid"]
        if aid[0] != "atom":
            continue
        rid = (aid[1], aid[2], aid[3], aid[4])
        res.setdefault(rid, {})[aid[5]] = k
    intra = {rid: set() for rid in res}
    inter_ok = {rid: True for rid in res}
    n_peptide = {rid: False for rid in res}
    for (k1, k2) in conf["bonds"]:
        k1, k2 = tuple(k1), tuple(k2)
        a, b = atoms.get(k1), atoms.get(k2)
        if a is None or b is None:
            continue
        ra = (a["aid"][1], a["aid"][2], a["aid"][3], a["aid"][4])
        rb = (b["aid"][1], b["aid"][2], b["aid"][3], b["aid"][4])
        na, nb = a["aid"][5], b["aid"][5]
        if ra == rb and a["aid"][0] == "atom":
            intra[ra].add((na, nb) if na <= nb else (nb, na))
            continue
        pep = (na == "C" and nb == "N") or (na == "N" and nb == "C")
        ss = na == "SG" and nb == "SG"
        for r_ in (ra, rb):
            # links to other residues: peptide C-N (the neighbour may be a hetero residue such as
            # MSE written as HETATM) and disulfides
            if r_ in inter_ok and not (pep or ss):
                inter_ok[r_] = False
    # "chain neighbour present" is decided from the coordinates, not from the perceived bonds:
    # a backbone N with the carbonyl C of another residue at peptide-bond distance
    carbons = [(k, h) for k, h in atoms.items() if h["aid"][5] == "C"]
    for rid, names in res.items():
        kn = names.get("N")
        if kn is None:
            continue
        for kc, h in carbons:
            rc = (h["aid"][1], h["aid"][2], h["aid"][3], h["aid"][4])
            if rc == rid:
                continue
            d2 = (kn[1] - kc[1]) ** 2 + (kn[2] - kc[2]) ** 2 + (kn[3] - kc[3]) ** 2
            if d2 < 1600 ** 2:
                n_peptide[rid] = True
                break
    out = {}
    for rid, names in res.items():
        resn = rid[3].strip()
        tpl = TEMPLATE.get(resn)
        if tpl is None:
            continue
        want_atoms = {x for p in tpl for x in p}
        have = set(names)
        extra = have - want_atoms - {"OXT"}
        if extra or not want_atoms <= have:
            continue
        bonds = {p for p in intra[rid] if "OXT" not in p}
        if bonds != tpl or not inter_ok[rid]:
            continue
        out[rid] = {"resname": resn, "atoms": names, "amide": n_peptide[rid]}
    return out


def check_completeness(conf, warnings, viol, counts, classes):
    """Complete regular residues get the full complement of hydrogens and no warning."""
    by_parent = {}
    for h in conf["hydrogens"]:
        if len(h["parents"]) == 1:
            by_parent[tuple(h["parents"][0])] = by_parent.get(tuple(h["parents"][0]), 0) + 1
    term = {tuple(h["akey"]): h["terminal"] for h in conf["heavy"]}
    reg = regular_residues(conf)
    counts["regular_residues"] = counts.get("regular_residues", 0) + len(reg)
    warned = set()
    for w in warnings:
        if w.startswith("Missing atoms or failed protonation for "):
            lab = w[len("Missing atoms or failed protonation for "):]
            warned.add((lab[:3].strip(), lab[3:7].strip(), lab[8:9], lab[lab.find("(") + 1:lab.find(")")]))
    for rid, info in reg.items():
        resn = info["resname"]
        chain = rid[0]
        for aname, n in EXPECTED_H.get(resn, {}).items():
            counts["sidechain_hydrogen_claims"] = counts.get("sidechain_hydrogen_claims", 0) + 1
            got = by_parent.get(info["atoms"][aname], 0)
            if got != n:
                viol.append({"cls": "hydrogens-incomplete", "msg": "regular %s %s%s%s: %d hydrogens on %s, expected %d" % (
                    resn, rid[1], rid[2].strip(), chain, got, aname, n)})
            classes.append("complement:" + resn)
        if resn != "PRO" and info["amide"] and term.get(info["atoms"]["N"]) is None:
            counts["amide_hydrogen_claims"] = counts.get("amide_hydrogen_claims", 0) + 1
            got = by_parent.get(info["atoms"]["N"], 0)
            if got != 1:
                viol.append({"cls": "hydrogens-incomplete", "msg": "regular %s %s%s%s: %d backbone amide hydrogens" % (
                    resn, rid[1], rid[2].strip(), chain, got)})
        for (wres, wnum, wchain, wtype) in warned:
            if wres == resn and wnum == str(rid[1]) and wchain == (chain if chain.strip() else "_") and wtype in ("BBN", "HIS", "ARG", "AMD", "TRP"):
                if wtype == "BBN" and (resn == "PRO" or not info["amide"]):
                    continue
                viol.append({"cls": "warning-for-regular-residue", "msg": "'Missing atoms or failed protonation' for regular complete residue %s %s %s (%s)" % (
                    resn, rid[1], chain, wtype)})
    return reg
