"""C16 monitors: contracts on the energy functions (sign by charge, bounds) and the boundary
check of every determinant of every conformation."""
from .. import contracts, util

EPS = 1e-9
_C = None


OVERRIDES = {}


def set_overrides(ov):
    """Scalar settings of the parameter file the current case runs with (the configured maxima follow them)."""
    global OVERRIDES
    OVERRIDES = dict(ov or {})


def consts():
    base = _consts()
    if not OVERRIDES:
        return base
    c = dict(base)
    if "coulomb_cutoff1" in OVERRIDES:
        c["coulomb_max"] = 244.12 / (30.0 * float(OVERRIDES["coulomb_cutoff1"]))
    if "sidechain_interaction" in OVERRIDES:
        c["hb_max"] = float(OVERRIDES["sidechain_interaction"])
    ions = {k.split()[1]: float(v) for k, v in OVERRIDES.items() if k.startswith("ions ")}
    if ions:
        c["ions"] = dict(base["ions"], **ions)
    return c


def _consts():
    global _C
    if _C is None:
        cfg = util.parse_cfg()
        sc = cfg["scalars"]
        _C = {"hb_max": float(sc.get("sidechain_interaction", 0.85)),
              "exceptions": {"COO_HIS": float(sc["COO_HIS_exception"]), "OCO_HIS": float(sc["OCO_HIS_exception"]),
                             "CYS_HIS": float(sc["CYS_HIS_exception"]), "CYS_CYS": float(sc["CYS_CYS_exception"])},
              "bb_max": max(abs(v[0]) for v in list(cfg["backbone_NH_hydrogen_bond"].values()) + list(cfg["backbone_CO_hydrogen_bond"].values())),
              "coulomb_max": 244.12 / (30.0 * float(sc["coulomb_cutoff1"])),
              "acid_list": set(cfg["acid_list"]), "base_list": set(cfg["base_list"]),
              "ions": dict(cfg["ions"])}
    return _C


def install():
    import propka.energy as pe

    def post_desolv(snap, result, exc, args, kwargs):
        if exc is not None:
            return
        g = args[1] if len(args) > 1 else kwargs["group"]
        contracts.count("desolvation_contract")
        if g.energy_volume * g.charge > EPS:
            contracts.report("desolvation-wrong-sign", "%s (charge %+g): regular desolvation %.4f" % (g.label, g.charge, g.energy_volume))
        if not (0.0 <= g.buried <= 1.0):
            contracts.report("buried-out-of-range", "%s: buried fraction %r" % (g.label, g.buried))
        if g.num_volume < 0 or g.num_volume != int(g.num_volume):
            contracts.report("count-not-a-count", "%s: num_volume %r" % (g.label, g.num_volume))
    contracts.install(pe, "radial_volume_desolvation", post=post_desolv)

    def post_reorg(snap, result, exc, args, kwargs):
        if exc is not None:
            return
        conf = args[1] if len(args) > 1 else kwargs["conformation"]
        for g in conf.get_backbone_reorganisation_groups():
            contracts.count("reorganisation_contract")
            if g.energy_local * g.charge > EPS:
                contracts.report("desolvation-wrong-sign", "%s (charge %+g): backbone-reorganisation term %.4f" % (g.label, g.charge, g.energy_local))
    contracts.install(pe, "backbone_reorganization", post=post_reorg)

    def post_hb(snap, result, exc, args, kwargs):
        if exc is not None:
            return
        contracts.count("hbond_energy_contract")
        dpka_max = args[1] if len(args) > 1 else kwargs["dpka_max"]
        f_angle = args[3] if len(args) > 3 else kwargs.get("f_angle", 1.0)
        if result < 0 or result > abs(dpka_max) * max(1.0, abs(f_angle)) + EPS:
            contracts.report("hbond-energy-out-of-bounds", "hydrogen_bond_energy%r = %r" % (tuple(args), result))
    contracts.install(pe, "hydrogen_bond_energy", post=post_hb)

    def post_coul(snap, result, exc, args, kwargs):
        if exc is not None:
            return
        contracts.count("coulomb_energy_contract")
        weight = args[1] if len(args) > 1 else kwargs["weight"]
        if result < 0 or result > consts()["coulomb_max"] + EPS:
            contracts.report("coulomb-energy-out-of-bounds", "coulomb_energy(dist=%r, weight=%r) = %r (max %.4f)" % (
                args[0] if args else None, weight, result, consts()["coulomb_max"]))
        if not (0.0 <= weight <= 1.0):
            contracts.report("weight-not-clamped", "coulomb_energy called with weight %r" % weight)
    contracts.install(pe, "coulomb_energy", post=post_coul)

    def post_w(snap, result, exc, args, kwargs):
        if exc is not None:
            return
        contracts.count("weight_contract")
        if not (0.0 <= result <= 1.0):
            contracts.report("weight-not-clamped", "calculate_weight(%r) = %r" % (args[1:] if len(args) > 1 else kwargs, result))
    contracts.install(pe, "calculate_weight", post=post_w)
    contracts.install(pe, "calculate_pair_weight", post=post_w)


def sign(x):
    return (x > 0) - (x < 0)


def check_conformation(name, conf, viol, counts, classes):
    c = consts()
    idx = {}
    for g in conf["groups"]:
        idx[(tuple(g["akey"]), g["type"])] = g
    by_atom = {}
    for g in conf["groups"]:
        by_atom.setdefault(tuple(g["akey"]), []).append(g)
    for g in conf["groups"]:
        q = g["charge"]
        if g["titratable"] or g["type"] == "ION":
            counts["groups_sign_checked"] = counts.get("groups_sign_checked", 0) + 1
            if g["E_vol"] * q > EPS:
                viol.append({"cls": "desolvation-wrong-sign", "msg": "%s: %s (charge %+g) regular desolvation %.4f" % (name, g["label"], q, g["E_vol"])})
            if g["E_loc"] * q > EPS:
                viol.append({"cls": "desolvation-wrong-sign", "msg": "%s: %s (charge %+g) RE desolvation %.4f" % (name, g["label"], q, g["E_loc"])})
            if not (0.0 <= g["buried"] <= 1.0):
                viol.append({"cls": "buried-out-of-range", "msg": "%s: %s buried %r" % (name, g["label"], g["buried"])})
        if not g["titratable"]:
            continue
        for d in g["det"]["backbone"]:
            counts["determinants_checked"] = counts.get("determinants_checked", 0) + 1
            if d[3] * q < -EPS:
                viol.append({"cls": "backbone-wrong-sign", "msg": "%s: %s (charge %+g) backbone determinant %+.4f from %s" % (name, g["label"], q, d[3], d[2])})
            if abs(d[3]) > c["bb_max"] + EPS:
                viol.append({"cls": "determinant-out-of-bounds", "msg": "%s: %s backbone determinant %+.4f from %s exceeds %.2f" % (name, g["label"], d[3], d[2], c["bb_max"])})
        for d in g["det"]["sidechain"]:
            counts["determinants_checked"] = counts.get("determinants_checked", 0) + 1
            partners = by_atom.get(tuple(d[0]), [])
            ptypes = {p["type"] for p in partners}
            bound = 2 * c["hb_max"]
            pair = {g["type"]} | ptypes
            if g["type"] == "CYS" and "CYS" in ptypes:
                bound = max(bound, c["exceptions"]["CYS_CYS"])
            if abs(d[3]) > bound + EPS:
                viol.append({"cls": "determinant-out-of-bounds", "msg": "%s: %s side-chain determinant %+.4f from %s exceeds %.2f" % (name, g["label"], d[3], d[2], bound)})
            classes.append("sidechain:%s/%s" % (g["type"], "|".join(sorted(ptypes)) or "?"))
        for d in g["det"]["coulomb"]:
            counts["determinants_checked"] = counts.get("determinants_checked", 0) + 1
            partners = by_atom.get(tuple(d[0]), [])
            pq = d[4]
            ion = any(p["type"] == "ION" for p in partners)
            if ion:
                # the formal charge of an ion is the one configured for its residue name
                formal = c["ions"].get(d[5][4].strip())
                counts["ion_formal_charges_checked"] = counts.get("ion_formal_charges_checked", 0) + 1
                from ..oracles import chem
                if formal is not None and formal * chem.ion_sign(d[5][4]) < 0:
                    viol.append({"cls": "ion-charge-sign-unchemical", "msg": "%s: ion %s (residue %s) is configured with charge %+g" % (
                        name, d[2], d[5][4], formal)})
                if formal is not None and formal != pq:
                    viol.append({"cls": "ion-charge-not-configured-value", "msg": "%s: ion %s (residue %s) acts with charge %+g, configured %+g" % (
                        name, d[2], d[5][4], pq, formal)})
                    pq = formal
            if not ion and partners and abs(d[3]) > EPS:
                # a Coulomb term needs a charge on the other side: the partner's type (or residue type) carries a
                # configured charge - a formally neutral ligand atom (a bound chlorine, an ether oxygen) has none
                from .. import util
                qtab = util.parse_cfg()["charge"]
                counts["coulomb_partner_charges_checked"] = counts.get("coulomb_partner_charges_checked", 0) + 1
                if not any(qtab.get(p["type"]) or qtab.get(p["rtype"]) for p in partners):
                    viol.append({"cls": "coulomb-from-uncharged-group", "msg": "%s: %s has Coulomb determinant %+.4f from %s (group type %s), for which no charge is configured" % (
                        name, g["label"], d[3], d[2], "|".join(sorted({p["type"] for p in partners})))})
            bound = c["coulomb_max"] * (abs(pq) if ion else 1.0)
            if abs(d[3]) > bound + EPS:
                viol.append({"cls": "determinant-out-of-bounds", "msg": "%s: %s Coulomb determinant %+.4f from %s exceeds %.3f" % (name, g["label"], d[3], d[2], bound)})
            if pq == 0:
                continue
            if ion:
                want = -sign(pq)
                classes.append("ion-coulomb:%s/%s" % (g["type"], "+" if pq > 0 else "-"))
            elif sign(pq) != sign(q):
                want = sign(q)          # opposite charges stabilise the charged form: acid down, base up
                classes.append("coulomb:%s/%s:opposite" % (g["type"], "|".join(sorted({p["type"] for p in partners}))))
            else:
                want = -sign(q)         # like charges: acid up, base down
                classes.append("coulomb:%s/%s:like" % (g["type"], "|".join(sorted({p["type"] for p in partners}))))
            if sign(d[3]) not in (0, want):
                viol.append({"cls": "coulomb-wrong-sign", "msg": "%s: %s (charge %+g) has Coulomb determinant %+.4f from %s (charge %+g%s)" % (
                    name, g["label"], q, d[3], d[2], pq, ", ion" if ion else "")})
    # every ion is a partner of its own: two ions must not be folded into one determinant
    ions = [g for g in conf["groups"] if g["type"] == "ION"]
    if len(ions) >= 2:
        for g in conf["groups"]:
            if not g["titratable"]:
                continue
            keys = [tuple(d[0]) for d in g["det"]["coulomb"] if any(tuple(i["akey"]) == tuple(d[0]) for i in ions)]
            counts["ion_rows_checked"] = counts.get("ion_rows_checked", 0) + len(keys)
            near = 0
            for i in ions:
                d2 = sum((g["center"][k] - i["center"][k]) ** 2 for k in range(3))
                if d2 < (float(OVERRIDES.get("coulomb_cutoff2", 10.0)) - 0.001) ** 2:
                    near += 1
            if len(keys) < near and near - len(keys) >= 1 and len(set(keys)) == len(keys):
                viol.append({"cls": "ion-determinants-folded", "msg": "%s: %s has %d ions within the Coulomb range but %d ion determinant(s)" % (
                    name, g["label"], near, len(keys))})
    # acid-base pairs of reported protein side chains: equal and opposite
    rep = [g for g in conf["groups"] if g["titratable"] and g["use"] and g["ctg"] is None and g["aid"][0] == "atom"]
    repidx = {tuple(g["akey"]): g for g in rep}
    for g in rep:
        for d in g["det"]["coulomb"]:
            p = repidx.get(tuple(d[0]))
            if p is None or sign(p["charge"]) == sign(g["charge"]) or p["charge"] == 0:
                continue
            counts["acid_base_pairs_checked"] = counts.get("acid_base_pairs_checked", 0) + 1
            back = [e for e in p["det"]["coulomb"] if tuple(e[0]) == tuple(g["akey"])]
            tot_here = sum(e[3] for e in g["det"]["coulomb"] if tuple(e[0]) == tuple(p["akey"]))
            tot_back = sum(e[3] for e in back)
            if not back or abs(tot_here + tot_back) > 1e-9:
                viol.append({"cls": "acid-base-coulomb-asymmetric", "msg": "%s: %s has %+.4f from %s, which has %s from it" % (
                    name, g["label"], tot_here, p["label"], ("%+.4f" % tot_back) if back else "nothing")})


def check_average(conf, viol, counts):
    """The reported average: signs of the desolvation terms and 0 <= buried <= 1 (determinant
    magnitudes are bounded within a conformation only)."""
    for g in conf["groups"]:
        q = g["charge"]
        counts["avr_groups_sign_checked"] = counts.get("avr_groups_sign_checked", 0) + 1
        if g["E_vol"] * q > EPS or g["E_loc"] * q > EPS:
            viol.append({"cls": "desolvation-wrong-sign", "msg": "AVR: %s (charge %+g) desolvation %.4f / %.4f" % (g["label"], q, g["E_vol"], g["E_loc"])})
        if not (0.0 <= g["buried"] <= 1.0 + 1e-12):
            viol.append({"cls": "buried-out-of-range", "msg": "AVR: %s buried fraction %r" % (g["label"], g["buried"])})
