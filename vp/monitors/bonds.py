"""Contract on BondMaker.find_bonds_for_atoms_using_boxes: the bonds added by the call are
exactly those of the pairwise rule (H-X < 1.5, X-Y < 2.0, S-S < 2.5, H-H never), symmetric,
irreflexive; both S of an S-S bond are flagged as bridged. The reference is an O(n^2)
restatement of the rule (numpy), independent of the cell list."""
import math

from .. import contracts

H2, D2, S2 = 1.5 * 1.5, 2.0 * 2.0, 2.5 * 2.5
TIE = 1e-9
BOX = 2.51
DIRS = {}
THRESH = {}


def _hlike(e):
    return e != "H" and e[:1] == "H"     # Hg, Ho, He ...: the rule's text does not cover them


def _dyadic(a):
    return all(abs(c) < 2 ** 20 and c * 8.0 == math.floor(c * 8.0) for c in (a.x, a.y, a.z))


def reference_pairs(atoms):
    """(set of (i,j) i<j that must be bonded, set of (i,j) that are ties / unjudged)."""
    import numpy as np
    n = len(atoms)
    must, skip = set(), set()
    if n < 2:
        return must, skip
    x = np.array([a.x for a in atoms], dtype=np.float64)
    y = np.array([a.y for a in atoms], dtype=np.float64)
    z = np.array([a.z for a in atoms], dtype=np.float64)
    is_h = np.array([a.element == "H" for a in atoms])
    is_s = np.array([a.element == "S" for a in atoms])
    odd = np.array([_hlike(a.element) for a in atoms])
    step = max(1, 4000000 // n)
    for s in range(0, n, step):
        e = min(n, s + step)
        dx = x[None, :] - x[s:e, None]
        dy = y[None, :] - y[s:e, None]
        dz = z[None, :] - z[s:e, None]
        d2 = dx * dx + dy * dy + dz * dz
        ii, jj = np.nonzero(d2 < S2 + 1e-6)
        for a, j in zip(ii.tolist(), jj.tolist()):
            i = a + s
            if i >= j:
                continue
            d = float(d2[a, j])
            hc = int(is_h[i]) + int(is_h[j])
            if odd[i] or odd[j]:
                skip.add((i, j))
                continue
            if hc == 2:
                continue
            t = H2 if hc == 1 else (S2 if (is_s[i] and is_s[j]) else D2)
            if abs(d - t) < TIE:
                if d == t and _dyadic(atoms[i]) and _dyadic(atoms[j]):
                    contracts.count("exact_ties_judged")      # exact arithmetic: strictly "less than" decides
                else:
                    skip.add((i, j))
            elif d < t:
                must.add((i, j))
    return must, skip


def _cell(a):
    return (math.floor(a.x / BOX), math.floor(a.y / BOX), math.floor(a.z / BOX))


def install():
    import propka.bonds as pb

    def pre(args, kwargs):
        atoms = args[1] if len(args) > 1 else kwargs["atoms"]
        atoms = list(atoms)
        before = [set(id(b) for b in a.bonded_atoms) for a in atoms]
        return atoms, before

    def post(snap, result, exc, args, kwargs):
        if exc is not None:
            contracts.report("bonds-exception", "find_bonds_for_atoms_using_boxes raised %r" % exc)
            return
        atoms, before = snap
        contracts.count("bond_contract")
        contracts.count("bond_contract_atoms", len(atoms))
        index = {id(a): i for i, a in enumerate(atoms)}
        must, skip = reference_pairs(atoms)
        got = set()
        for i, a in enumerate(atoms):
            ids = [id(b) for b in a.bonded_atoms]
            if id(a) in ids:
                contracts.report("bond-to-self", "atom %s bonded to itself" % a)
            if len(ids) != len(set(ids)):
                contracts.report("bond-duplicate", "atom %s lists a neighbour twice" % a)
            for b in a.bonded_atoms:
                j = index.get(id(b))
                if j is None:
                    continue
                if not any(c is a for c in b.bonded_atoms):
                    contracts.report("bond-asymmetric", "%s -> %s but not back" % (a, b))
                if id(b) not in before[i]:
                    got.add((i, j) if i < j else (j, i))
        old = set()
        for i, a in enumerate(atoms):
            for bid in before[i]:
                j = index.get(bid)
                if j is not None:
                    old.add((i, j) if i < j else (j, i))
        missing = (must - got) - old - skip
        extra = (got - must) - skip
        contracts.count("bond_reference_pairs", len(must))
        for (i, j) in sorted(missing)[:3]:
            contracts.report("bond-missing", "pair %s | %s d=%.4f not bonded (cells %s %s)" % (
                atoms[i], atoms[j], _dist(atoms[i], atoms[j]), _cell(atoms[i]), _cell(atoms[j])))
        for (i, j) in sorted(extra)[:3]:
            contracts.report("bond-extra", "pair %s | %s d=%.4f bonded against the rule" % (
                atoms[i], atoms[j], _dist(atoms[i], atoms[j])))
        # classes: directions of cell crossings, thresholds exercised, S-S flags
        for (i, j) in must:
            a, b = atoms[i], atoms[j]
            ca, cb = _cell(a), _cell(b)
            d = tuple(cb[k] - ca[k] for k in range(3))
            if d != (0, 0, 0):
                DIRS[d] = DIRS.get(d, 0) + 1
                DIRS[tuple(-c for c in d)] = DIRS.get(tuple(-c for c in d), 0) + 1
            hc = (a.element == "H") + (b.element == "H")
            t = "H-X" if hc else ("S-S" if a.element == b.element == "S" else "X-Y")
            THRESH[t] = THRESH.get(t, 0) + 1
            if t == "S-S" and (i, j) in got:
                contracts.count("ss_bonds")
                if not (a.cysteine_bridge and b.cysteine_bridge):
                    contracts.report("ss-not-flagged", "S-S bond %s | %s: bridge flags %r %r" % (
                        a, b, a.cysteine_bridge, b.cysteine_bridge))
    contracts.install(pb, "find_bonds_for_atoms_using_boxes", pre=pre, post=post, owner=pb.BondMaker)


def _dist(a, b):
    return math.sqrt((a.x - b.x) ** 2 + (a.y - b.y) ** 2 + (a.z - b.z) ** 2)


def drain_classes():
    global DIRS, THRESH
    d, t = DIRS, THRESH
    DIRS, THRESH = {}, {}
    return d, t
