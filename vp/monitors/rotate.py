"""Contract on propka.vector_algebra.rotate_vector_around_an_axis (alias in protonate)."""
import math

from .. import contracts
from ..oracles import rodrigues

REL_TOL = 1e-6
PATTERNS = {}


def check(theta, axis, vec, result):
    """Return None or a message. axis/vec/result are 3-tuples."""
    if not all(math.isfinite(c) for c in axis + vec) or not any(axis):
        return None
    nz = [abs(c) for c in axis if c != 0]
    if max(nz) / min(nz) > 1e9 or max(nz) > 1e12 or min(nz) < 1e-12:
        return None      # x*x under/overflow territory - outside any caller
    exp = rodrigues.rotate(theta, axis, vec)
    vlen = math.sqrt(sum(c * c for c in vec))
    err = max(abs(result[i] - exp[i]) for i in range(3))
    if not err <= REL_TOL * (1.0 + vlen):
        return "rotate(theta=%r, axis=%r, vec=%r) = %r, Rodrigues gives %r (err %.3g)" % (
            theta, axis, vec, result, exp, err)
    return None


def classify(axis):
    if axis[0] == 0 and axis[1] == 0 and axis[2] < 0:
        return "rotation-wrong-axis-minus-z"
    return "rotation-not-rodrigues"


def install():
    import propka.vector_algebra as va

    def post(snap, result, exc, args, kwargs):
        if exc is not None:
            return
        theta, axis, vec = (list(args) + [None] * 3)[:3]
        theta = kwargs.get("theta", theta)
        axis = kwargs.get("axis", axis)
        vec = kwargs.get("vec", vec)
        a = (axis.x, axis.y, axis.z)
        contracts.count("rotate_contract")
        p = rodrigues.pattern(a)
        PATTERNS[p] = PATTERNS.get(p, 0) + 1
        msg = check(theta, a, (vec.x, vec.y, vec.z), (result.x, result.y, result.z))
        if msg:
            contracts.report(classify(a), msg)
    contracts.install(va, "rotate_vector_around_an_axis", post=post)


def drain_patterns():
    global PATTERNS
    p, PATTERNS = PATTERNS, {}
    return p
