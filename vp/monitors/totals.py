"""C02 monitors: pKa == model + desolvation + sum of determinants (contract on
Group.calculate_total_pka and boundary check), and the written .pka file renders the same
numbers."""
from .. import contracts, obs

TOL = 1e-9


def identity_residual(g):
    """g is a group record (obs.group_record)."""
    s = g["model_pka"] + g["E_vol"] + g["E_loc"]
    for t in ("sidechain", "backbone", "coulomb"):
        for d in g["det"][t]:
            s += d[3]
    return g["pka"] - s


def install():
    import propka.group as pg

    def post(snap, result, exc, args, kwargs):
        if exc is not None:
            return
        g = args[0]
        contracts.count("total_pka_contract")
        if g.atom.cysteine_bridge:
            if g.pka_value != 99.99:
                contracts.report("bridged-cys-not-9999", "%s bridged but pKa %r" % (g.label, g.pka_value))
            return
        s = g.model_pka + g.energy_volume + g.energy_local
        for t in ("sidechain", "backbone", "coulomb"):
            for d in g.determinants[t]:
                s += d.value
        if not abs(g.pka_value - s) <= TOL:
            contracts.report("pka-identity-at-exit", "%s: pKa %.6f != %.6f at exit of calculate_total_pka" % (
                g.label, g.pka_value, s))
    contracts.install(pg, "calculate_total_pka", post=post, owner=pg.Group)


def check_identity(rec, viol, counts, only_reported=False):
    """Boundary check on every group of every conformation and AVR."""
    # a CYS that is bridged in some conformation is fixed at 99.99 there: neither that value nor an
    # average containing it is a sum of contributions (the statement's exception)
    bridged_somewhere = set()
    for cname, conf in rec["confs"].items():
        if cname != "AVR":
            for g in conf["groups"]:
                if g["bridge"]:
                    bridged_somewhere.add((g["aid"][1], g["aid"][2], g["aid"][3], g["aid"][5], g["type"]))
    for cname, conf in rec["confs"].items():
        for g in conf["groups"]:
            counts["identity_groups"] = counts.get("identity_groups", 0) + 1
            if cname == "AVR" and (g["aid"][1], g["aid"][2], g["aid"][3], g["aid"][5], g["type"]) in bridged_somewhere:
                continue
            if g["bridge"]:
                if abs(g["pka"] - 99.99) > TOL and cname != "AVR":
                    viol.append({"cls": "bridged-cys-not-9999", "msg": "%s %s pKa %.4f" % (cname, g["label"], g["pka"])})
                continue
            r = identity_residual(g)
            if not abs(r) <= TOL:
                cls = "pka-identity-avr" if cname == "AVR" else "pka-identity"
                viol.append({"cls": cls, "msg": "conformation %s group %s: pKa %.6f differs from model+desolvation+"
                             "determinants by %.6g" % (cname, g["label"], g["pka"], r),
                             "detail": {"conf": cname, "label": g["label"], "n_confs": len(rec["names"])}})


def _near(printed, value, decimals=2):
    return abs(printed - value) <= 0.5 * 10 ** (-decimals) + 1e-9


def check_text(rec, text, cfg, remove_penalised, viol, counts, conf="AVR"):
    """Determinant table and summary of the .pka text against the API record of AVR (or of the conformation
    the file was written for)."""
    parsed = obs.parse_pka_text(text)
    try:
        table = obs.parse_det_rows(parsed["det_rows"])
        summary = obs.parse_summary(parsed["summary"])
    except ValueError as e:
        viol.append({"cls": "text-unparsable", "msg": str(e)})
        return parsed
    avr = rec["confs"][conf]
    by_label = {}
    from .. import util as _u
    _woo = _u.parse_cfg()["write_out_order"]
    for g in avr["groups"]:
        # rows are written for the write-out types only, and a penalised group is left out when
        # remove_penalised_group is on
        if g["rtype"] not in _woo or (remove_penalised and g["ctg"] is not None):
            continue
        by_label.setdefault(g["label"], []).append(g)
    # groups that share a printed label (same atom typed differently in two conformations,
    # two copies of a ligand) are printed in write-out order of their type, then list order
    from .. import util
    woo = util.parse_cfg()["write_out_order"]
    for lab, lst in by_label.items():
        if len(lst) > 1:
            lst.sort(key=lambda g: woo.index(g["rtype"]) if g["rtype"] in woo else len(woo))
    used = {}
    nontriv = 0
    for row in table:
        counts["table_groups"] = counts.get("table_groups", 0) + 1
        cands = by_label.get(row["label"], [])
        k = used.get(row["label"], 0)
        used[row["label"]] = k + 1
        if k >= len(cands):
            viol.append({"cls": "table-group-not-in-results", "msg": "table row %r has no API group" % row["label"]})
            continue
        g = cands[k]
        bad = []
        if not _near(row["pka"], g["pka"]):
            bad.append("pKa %.2f vs %.4f" % (row["pka"], g["pka"]))
        if row["buried"] != int(100.0 * g["buried"]):
            bad.append("buried %d vs %d" % (row["buried"], int(100.0 * g["buried"])))
        if not _near(row["E_vol"], g["E_vol"]) or row["n_vol"] != int(g["n_vol"]):
            bad.append("desolvation-regular %.2f/%d vs %.4f/%d" % (row["E_vol"], row["n_vol"], g["E_vol"], int(g["n_vol"])))
        if not _near(row["E_loc"], g["E_loc"]) or row["n_loc"] != int(g["n_loc"]):
            bad.append("desolvation-RE %.2f/%d vs %.4f/%d" % (row["E_loc"], row["n_loc"], g["E_loc"], int(g["n_loc"])))
        if row["star"] != (len(g["ncov"]) > 0):
            bad.append("star %r vs coupled partners %d" % (row["star"], len(g["ncov"])))
        ntypes = 0
        for t in ("sidechain", "backbone", "coulomb"):
            api = g["det"][t]
            pr = row["cells"][t]
            if api:
                ntypes += 1
            if len(api) != len(pr):
                bad.append("%s: %d printed determinants vs %d" % (t, len(pr), len(api)))
                continue
            for (pv, pl), d in zip(pr, api):
                if pl != d[2] or not _near(pv, d[3]):
                    bad.append("%s: printed %.2f %r vs %.4f %r" % (t, pv, pl, d[3], d[2]))
        want_rows = max(1, *(len(g["det"][t]) for t in g["det"]))
        if row["nrows"] != want_rows:
            bad.append("rows %d vs %d" % (row["nrows"], want_rows))
        if ntypes >= 2:
            nontriv += 1
        if bad:
            viol.append({"cls": "text-table-mismatch", "msg": "group %s: %s" % (row["label"], "; ".join(bad[:4]))})
    # summary
    used = {}
    for s in summary:
        counts["summary_rows"] = counts.get("summary_rows", 0) + 1
        cands = by_label.get(s["label"], [])
        k = used.get(s["label"], 0)
        used[s["label"]] = k + 1
        if k >= len(cands):
            viol.append({"cls": "summary-group-not-in-results", "msg": "summary row %r has no API group" % s["label"]})
            continue
        g = cands[k]
        if not _near(s["pka"], g["pka"]) or not _near(s["model"], g["model_pka"]):
            viol.append({"cls": "text-summary-mismatch", "msg": "summary %s: %.2f/%.2f vs API %.4f/%.4f" % (
                s["label"], s["pka"], s["model"], g["pka"], g["model_pka"])})
    # every group of the average that is due a row has one, in the table and in the summary
    nt, ns = {}, {}
    for r in table:
        nt[r["label"]] = nt.get(r["label"], 0) + 1
    for s_ in summary:
        ns[s_["label"]] = ns.get(s_["label"], 0) + 1
    for lab, lst in by_label.items():
        if nt.get(lab, 0) < len(lst) or ns.get(lab, 0) < len(lst):
            viol.append({"cls": "results-group-not-in-text", "msg": "%d group(s) %r in the average (penalised groups %s); table rows %d, summary rows %d" % (
                len(lst), lab, "removed" if remove_penalised else "kept", nt.get(lab, 0), ns.get(lab, 0))})
    tl = sorted(r["label"] for r in table)
    sl = sorted(s["label"] for s in summary)
    if tl != sl:
        only_t = [x for x in tl if x not in sl]
        only_s = [x for x in sl if x not in tl]
        viol.append({"cls": "table-summary-differ", "msg": "table only: %r summary only: %r" % (only_t[:5], only_s[:5])})
    # first-row pKa of the table vs summary
    tp = {}
    for r in table:
        tp.setdefault(r["label"], []).append(r["pka"])
    sp = {}
    for s in summary:
        sp.setdefault(s["label"], []).append(s["pka"])
    for lab in tp:
        if lab in sp and sorted(tp[lab]) != sorted(sp[lab]):
            viol.append({"cls": "text-summary-mismatch", "msg": "%s: table pKa %r summary pKa %r" % (lab, tp[lab], sp[lab])})
    counts["text_nontrivial_groups"] = counts.get("text_nontrivial_groups", 0) + nontriv
    return parsed
