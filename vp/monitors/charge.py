"""C09/C10 monitors: contracts on Group.calculate_charge and lib.make_grid, boundary checks of
charge profiles, pI and the charge table against the independent Henderson-Hasselbalch oracle."""
import math

from .. import contracts
from ..oracles import hh

TOL = 1e-9


def install_charge_contract():
    import propka.group as pg

    def post(snap, result, exc, args, kwargs):
        if exc is not None:
            contracts.report("charge-exception", "calculate_charge raised %r" % exc)
            return
        g = args[0]
        ph = kwargs.get("ph", args[2] if len(args) > 2 else 7.0)
        state = kwargs.get("state", args[3] if len(args) > 3 else "folded")
        contracts.count("charge_contract")
        Q = g.charge
        pk = g.model_pka if state == "unfolded" else g.pka_value
        exp = hh.group_charge(Q, pk, ph)
        if not abs(result - exp) <= TOL:
            contracts.report("charge-not-hh", "%s state=%s pH=%r: charge %r, Henderson-Hasselbalch %r" % (
                g.label, state, ph, result, exp))
        if Q != 0 and not (-1e-12 <= result / Q <= 1 + 1e-12):
            contracts.report("charge-out-of-bounds", "%s pH=%r: %r outside [0,%r]" % (g.label, ph, result, Q))
    contracts.install(pg, "calculate_charge", post=post, owner=pg.Group)


def install_grid_contract():
    """make_grid must yield exactly the inclusive arithmetic grid (to 1e-9)."""
    import propka.lib as pl
    orig = pl.make_grid
    if hasattr(orig, "__wrapped_orig__"):
        return

    def make_grid(min_, max_, step):
        if not step > 0:
            return orig(min_, max_, step)
        vals = list(orig(min_, max_, step))
        contracts.count("grid_contract")
        msg = check_grid(vals, min_, max_, step)
        if msg:
            contracts.report(msg[0], msg[1])
        return iter(vals)
    make_grid.__wrapped_orig__ = orig
    make_grid.__name__ = "make_grid"
    n = contracts.patch_everywhere(orig, make_grid)
    if n == 0:
        raise RuntimeError("make_grid not patched")


def check_grid(vals, mn, mx, step):
    if not (step > 0 and mx >= mn):
        return None
    want = hh.grid_points(mn, mx, step)
    if len(vals) != len(want):
        last = vals[-1] if vals else None
        cls = "grid-end-point-lost" if len(vals) == len(want) - 1 else "grid-wrong-length"
        return (cls, "grid(%r,%r,%r): %d points ending at %r, expected %d ending at %r" % (
            mn, mx, step, len(vals), last, len(want), want[-1]))
    for a, b in zip(vals, want):
        if abs(a - b) > 1e-9:
            return ("grid-point-off", "grid(%r,%r,%r): point %r, expected %r" % (mn, mx, step, a, b))
    return None


def probe_groups(mol, viol, counts):
    """Per-group clauses on the live objects: q(pK) = Q/2, bounds, monotone non-increasing."""
    conf = mol.conformations["AVR"]
    params = mol.version.parameters
    from .. import util
    from ..oracles import chem
    cfg = util.parse_cfg()
    for g in conf.groups:
        if not g.titratable:
            continue
        counts["groups_probed"] = counts.get("groups_probed", 0) + 1
        Q = g.charge
        want = chem.class_sign(g.type, g.residue_type, cfg["acid_list"], cfg["base_list"])
        if want is not None and Q * want <= 0:
            viol.append({"cls": "acid-base-charge-sign", "msg": "%s (type %s) is listed as %s but carries formal charge %+g" % (
                g.label, g.type, "an acid" if want < 0 else "a base", Q)})
        for state, pk in (("folded", g.pka_value), ("unfolded", g.model_pka)):
            half = g.calculate_charge(params, ph=pk, state=state)
            if abs(half - Q / 2.0) > 1e-12:
                viol.append({"cls": "charge-half-point", "msg": "%s %s: q(pK)=%r, Q/2=%r" % (g.label, state, half, Q / 2.0)})
            prev = None
            for i in range(-8, 60):
                ph = pk - 6 + i * 0.25 if i >= 0 else -3.0 + i
                q = g.calculate_charge(params, ph=ph, state=state)
                if Q != 0 and not (-1e-12 <= q / Q <= 1 + 1e-12):
                    viol.append({"cls": "charge-out-of-bounds", "msg": "%s %s pH %r: %r" % (g.label, state, ph, q)})
                    break
            phs = [pk - 8 + 0.37 * i for i in range(44)]
            qs = [g.calculate_charge(params, ph=p, state=state) for p in phs]
            for a, b, p in zip(qs, qs[1:], phs[1:]):
                if b > a + 1e-12:
                    viol.append({"cls": "charge-increases-with-ph", "msg": "%s %s: q rises to %r at pH %r" % (g.label, state, b, p)})
                    break


def check_charge_profile(profile, groups, viol, counts, what="api"):
    """rows [pH, q_unfolded, q_folded] against the oracle sums (folded <- predicted pK)."""
    for row in profile:
        ph, qu, qf = row
        counts["profile_rows"] = counts.get("profile_rows", 0) + 1
        eu = hh.total_charge(groups, ph, "unfolded")
        ef = hh.total_charge(groups, ph, "folded")
        tol = TOL * (1 + len(groups)) if what == "api" else 0.005 + 1e-9
        if abs(qu - eu) > tol or abs(qf - ef) > tol:
            sw = abs(qu - ef) <= tol and abs(qf - eu) <= tol
            viol.append({"cls": "charge-columns-swapped" if sw else "charge-profile-%s-mismatch" % what,
                         "msg": "pH %.4f: reported unfolded %.6f folded %.6f; oracle unfolded %.6f folded %.6f" % (
                             ph, qu, qf, eu, ef)})
            return False
    return True


def check_pi(pi_pair, groups, lo, hi, precision, viol, counts, what="api", slack=0.0):
    """pi_pair = (folded, unfolded). Each must bracket the oracle's root to within precision."""
    out = {}
    for name, val, state in (("folded", pi_pair[0], "folded"), ("unfolded", pi_pair[1], "unfolded")):
        r = hh.root(groups, state, lo, hi)
        out[name] = r
        if r is None:
            continue
        counts["pi_checked"] = counts.get("pi_checked", 0) + 1
        tol = precision * (1 + 1e-6) + 1e-9 + slack
        if not abs(val - r) <= tol:
            other = hh.root(groups, "unfolded" if state == "folded" else "folded", lo, hi)
            sw = other is not None and abs(val - other) <= tol
            viol.append({"cls": "pi-interchanged" if sw else "pi-not-a-root",
                         "msg": "%s pI (%s) %.6f but the %s charge curve crosses zero at %.6f (window %r-%r, precision %g)" % (
                             name, what, val, state, r, lo, hi, precision)})
    return out
