"""C15 monitors: the coupling analysis must leave determinants and pKa untouched (contract
around NonCovalentlyCoupledGroups.is_coupled_protonation_state_probability), coupling is
symmetric, and a determinant row is starred iff the group has a coupled partner."""
from .. import contracts


def _snap(g):
    dets = []
    for t in ("sidechain", "backbone", "coulomb"):
        for d in g.determinants[t]:
            dets.append((t, id(d.group), d.label, d.value))
    return sorted(dets), g.pka_value


def install():
    import propka.coupled_groups as cg
    cls = cg.NonCovalentlyCoupledGroups

    def pre(args, kwargs):
        g1, g2 = args[1], args[2]
        return _snap(g1), _snap(g2), contracts.COUNTS.get("swap_calls", 0)

    def post(snap, result, exc, args, kwargs):
        if exc is not None:
            contracts.report("coupling-analysis-raised", "is_coupled_protonation_state_probability raised %r" % exc)
            return
        g1, g2 = args[1], args[2]
        s1, s2, swaps_before = snap
        contracts.count("coupling_contract")
        if contracts.COUNTS.get("swap_calls", 0) > swaps_before:
            contracts.count("coupling_contract_with_swap")
        for g, (d0, p0) in ((g1, s1), (g2, s2)):
            d1, p1 = _snap(g)
            if d1 != d0:
                gone = [x for x in d0 if x not in d1]
                new = [x for x in d1 if x not in d0]
                contracts.report("swap-not-undone", "%s: determinants changed by the coupling analysis with %s: lost %r gained %r" % (
                    g.label, (g2 if g is g1 else g1).label, [(t, l, round(v, 4)) for t, _, l, v in gone][:3],
                    [(t, l, round(v, 4)) for t, _, l, v in new][:3]))
            elif abs(p1 - p0) > 1e-9:
                contracts.report("swap-not-undone", "%s: pKa %.6f -> %.6f after the coupling analysis with %s" % (
                    g.label, p0, p1, (g2 if g is g1 else g1).label))
    contracts.install(cg, "is_coupled_protonation_state_probability", pre=pre, post=post, owner=cls)

    def post_swap(snap, result, exc, args, kwargs):
        contracts.count("swap_calls")
    contracts.install(cg, "swap_interactions", post=post_swap, owner=cls)


def check_symmetry_and_stars(mol, viol, counts):
    """On the live objects of every conformation (not AVR): symmetry of the coupled lists and
    star <=> coupled partner in the rendered determinant row."""
    for name in mol.conformation_names:
        conf = mol.conformations[name]
        for g in conf.groups:
            for o in g.non_covalently_coupled_groups:
                counts["coupled_pairs"] = counts.get("coupled_pairs", 0) + 1
                if not any(x is g for x in o.non_covalently_coupled_groups):
                    viol.append({"cls": "coupling-asymmetric", "msg": "%s: %s lists %s as coupled but not vice versa" % (
                        name, g.label, o.label)})
            s = g.get_determinant_string(False)
            if not s:
                continue
            first = s.split("\n")[0]
            star = first[len(g.label) + 7:len(g.label) + 8]
            counts["rows_star_checked"] = counts.get("rows_star_checked", 0) + 1
            if (star == "*") != (len(g.non_covalently_coupled_groups) > 0):
                viol.append({"cls": "star-mismatch", "msg": "%s: row of %s starred=%r but %d coupled partners" % (
                    name, g.label, star == "*", len(g.non_covalently_coupled_groups))})
