"""Boundary monitor: the groups reported by an execution against the census derived from the
input text (oracles/census.py) and against the harness's own reading of propka.cfg."""
from .. import obs, util
from ..oracles import census as cz

_CFG = None


def cfg():
    global _CFG
    if _CFG is None:
        _CFG = util.parse_cfg()
    return _CFG


def check(run, text, viol, counts, classes, chains=None, titrate_only=None, remove_penalised=True,
          check_hetero=True, allow_topup_extras=False):
    """run: obs.Run of `text`. Appends violations; returns the census dict (or None)."""
    c = cfg()
    cen = cz.census(text, chains=chains, titrate_only=titrate_only, ignore=tuple(c["ignore_residues"]))
    if run.exc or run.rec is None:
        return cen
    if cen["altloc"] or cen["ties"] or cen["duplicate_ids"]:
        counts["census_not_judged"] = counts.get("census_not_judged", 0) + 1
        return cen
    rec = run.rec
    nviol0 = len(viol)
    per_conf = {}
    for m, sites in cen["models"].items():
        per_conf["%dA" % m] = sites
    names = rec["names"]
    first_sites = None
    for name in names:
        sites = per_conf.get(name)
        if sites is None:
            viol.append({"cls": "census-conformation", "msg": "conformation %s has no counterpart in the input" % name})
            continue
        if first_sites is None:
            first_sites = sites
        _check_conf(name, rec["confs"][name], sites, titrate_only, viol, counts, classes, c, check_hetero,
                    allow_extra=allow_topup_extras and len(names) > 1)
    # ions: every hetero atom whose residue name is a configured ion must yield an ION group
    ions_expected = _ions_in_text(text, chains, c)
    for name in names:
        m = int(name[:-1])
        exp_i = ions_expected.get(m, [])
        got_i = [tuple(g["akey"]) for g in rec["confs"][name]["groups"] if g["type"] == "ION"]
        counts["ions_expected"] = counts.get("ions_expected", 0) + len(exp_i)
        for k in exp_i:
            if got_i.count(k) != 1:
                viol.append({"cls": "ion-not-recognised", "msg": "%s: ion atom %r of the input yields %d ION groups" % (name, k, got_i.count(k))})
        for k in got_i:
            if k not in exp_i and allow_topup_extras and len(names) > 1:
                continue        # copied in from another model by the top-up
            if k not in exp_i:
                viol.append({"cls": "census-spurious", "msg": "%s: ION group on %r which is not a configured ion" % (name, k)})
    if set(per_conf) - set(names):
        viol.append({"cls": "census-conformation", "msg": "models %r of the input have no conformation" % sorted(set(per_conf) - set(names))})
    if first_sites is None:
        return cen
    same = all(_sig(per_conf[n]) == _sig(first_sites) for n in names if n in per_conf)
    if not same and all(n in per_conf for n in names):
        # models with different site sets (point mutants, missing residues): the average and the
        # written summary must report the union of the sites of all models, each once
        union = {}
        for n in names:
            for s_ in per_conf[n]:
                union.setdefault((s_["rtype"], tuple(s_["resid"]), s_["akey"][0]), s_)
        usites = list(union.values())
        _check_conf("AVR", rec["confs"]["AVR"], usites, titrate_only, viol, counts, classes, c, False, match_atoms=False)
        counts["union_census_checks"] = counts.get("union_census_checks", 0) + 1
        if run.text:
            _check_summary(run, [dict(s_, bridged=False) for s_ in usites if s_["in_list"]], rec["confs"]["AVR"],
                           rec["confs"][names[0]], viol, counts, classes, remove_penalised)
    _classify_twins(viol, nviol0, text, chains, c, multi=len(names) > 1)
    nviol1 = len(viol)
    if same:
        # AVR and the written summary report the same set (identical site sets in all models)
        exp = [s for s in first_sites if s["in_list"]]
        if len(names) > 1:
            # a cysteine that is bridged in some models and not in others (a long S-S bond jittered across
            # 2.5 A): its average is neither 99.99 nor a titrating value - the 99.99 clause is per model
            flags = {}
            for n in names:
                for s_ in per_conf.get(n, []):
                    flags.setdefault((s_["rtype"], tuple(s_["resid"]), s_["akey"][0]), set()).add(bool(s_["bridged"]))
            vary = {k for k, v in flags.items() if len(v) > 1}
            if vary:
                counts["cys_bridged_in_some_models_only"] = counts.get("cys_bridged_in_some_models_only", 0) + len(vary)
                exp = [dict(s, bridged=False) if (s["rtype"], tuple(s["resid"]), s["akey"][0]) in vary else s for s in exp]
        _check_conf("AVR", rec["confs"]["AVR"], first_sites, titrate_only, viol, counts, classes, c, False,
                    match_atoms=(len(names) == 1), reported_only=True)
        if run.text:
            _check_summary(run, exp, rec["confs"]["AVR"], rec["confs"][names[0]], viol, counts, classes,
                           remove_penalised)
    _classify_twins(viol, nviol1, text, chains, c, multi=len(names) > 1)
    return cen


class _Text:
    def __init__(self, text):
        self.text = text


def check_conformation_reports(run, cen, viol, counts, classes, remove_penalised=True, text=None, chains=None):
    """The report written for one conformation (propka.output.write_pka(..., conformation=name)): its
    determinant table and its summary list the sites of that model once each, and nothing that the
    conformation does not hold."""
    import os
    import propka.output as po
    from .. import util
    if cen["altloc"] or cen["ties"] or cen["duplicate_ids"]:
        return
    for name in run.rec["names"][:3]:
        sites = cen["models"].get(int(name[:-1]))
        if sites is None:
            continue
        path = os.path.join(util.worker_tmp(), "c01_conf_%s.pka" % name)
        try:
            po.write_pka(run.mol, run.mol.version.parameters, filename=path, conformation=name, verbose=False)
            with open(path) as fh:
                ctext = fh.read()
        except Exception as e:
            viol.append({"cls": "per-conformation-report-raises", "msg": "write_pka(conformation=%r): %r" % (name, e)})
            continue
        conf = run.rec["confs"][name]
        held = {g["label"] for g in conf["groups"]}
        nv = len(viol)
        _check_summary(_Text(ctext), [s for s in sites if s["in_list"]], conf, conf, viol, counts, classes, remove_penalised)
        keep = []
        for v in viol[nv:]:
            # groups completed from another model are groups of this conformation too
            if v["cls"] == "summary-spurious" and v.get("label") in held:
                continue
            if v["cls"] not in ("protein-groups-covalently-coupled",):
                v["msg"] = "report of %s: %s" % (name, v["msg"])
            keep.append(v)
        viol[nv:] = keep
        if text is not None:
            _classify_twins(viol, nv, text, chains, cfg(), multi=True)
        counts["per_conformation_reports"] = counts.get("per_conformation_reports", 0) + 1


def _twin_numbers(text, chains, c):
    """(chain, number) pairs that are shared by residues differing only in insertion code."""
    from .. import pdbio
    seen = {}
    for line in text.splitlines():
        tag = (line[:6] + "      ")[:6]
        if tag in pdbio.ATOM_TAGS and len(line) >= 54:
            r = pdbio.Rec(line)
            if r.resn in c["ignore_residues"] or (chains and r.chain not in chains):
                continue
            seen.setdefault((r.chain, r.resnum), set()).add(r.icode)
    return {k for k, v in seen.items() if len(v) > 1}


def _classify_twins(viol, start, text, chains, c, multi=True):
    """Violations located ON a residue whose (chain, number) is shared by insertion-code twins are
    attributed to the label-merging mechanism (known finding icode-twins-merged). In single-conformation
    inputs the unchanged program reports every twin site (4000 twin inputs, no missing / duplicated /
    spurious row): there only the bridge / titration flags of twin cysteines are attributed to the finding,
    a missing or duplicated twin group stays a violation."""
    if len(viol) <= start:
        return
    twins = _twin_numbers(text, chains, c)
    if not twins:
        return
    twin_labels = set()
    for (ch, num) in twins:
        twin_labels.add("%4d%2s" % (num, ch if ch.strip() else "_"))
    for v in viol[start:]:
        if v["cls"].startswith("twins:") or not v["cls"].startswith(("census-", "summary-")):
            continue
        if not multi and v["cls"] not in ("census-bridged-cys", "census-not-titrated"):
            continue
        loc = v.get("loc")
        if loc is not None and ((loc[0] if loc[0] != "_" else " "), loc[1]) in twins:
            v["cls"] = "twins:" + v["cls"]
        elif loc is None and v.get("label") and v["label"][3:9] in twin_labels:
            v["cls"] = "twins:" + v["cls"]


def _sig(sites):
    return sorted((s["rtype"], s["resid"], s["akey"][0]) for s in sites)


def _check_conf(name, conf, sites, titrate_only, viol, counts, classes, c, check_hetero, match_atoms=True,
                reported_only=False, allow_extra=False):
    exp = {}
    for s in sites:
        if s["in_list"]:
            k = (tuple(s["akey"]), s["rtype"]) if match_atoms else (s["akey"][0], s["resid"], s["rtype"])
            exp.setdefault(k, []).append(s)
    got = {}
    for g in conf["groups"]:
        if g["aid"][0] != "atom":
            continue
        if g["type"] in ("BBN", "BBC", "ROH", "AMD", "TRP"):
            # backbone and non-ionizable polar groups are partners, never reported
            if g["use"]:
                viol.append({"cls": "census-spurious", "msg": "%s: non-ionizable group %s (%s) is reported" % (name, g["label"], g["type"])})
            continue
        counts["census_groups"] = counts.get("census_groups", 0) + 1
        resid = (g["aid"][1] if g["aid"][1] != "_" else " ", g["aid"][2], g["aid"][3])
        in_list = titrate_only is None or resid in titrate_only
        if not g["use"]:
            if in_list:
                viol.append({"cls": "census-missing", "msg": "%s: group %s exists but is not reported" % (name, g["label"]), "loc": (resid[0], resid[1])})
            continue
        k = (tuple(g["akey"]), g["rtype"]) if match_atoms else (g["aid"][5], resid, g["rtype"])
        got.setdefault(k, []).append(g)
    for k, ss in exp.items():
        gs = got.get(k, [])
        s = ss[0]
        if len(gs) != len(ss):
            cls = "census-missing" if len(gs) < len(ss) else "census-duplicate"
            viol.append({"cls": cls, "msg": "%s: site %s (%s, atom %s) expected %d time(s), reported %d" % (
                name, s["label"], s["rtype"], s["akey"][0], len(ss), len(gs)),
                "detail": {"resid": s["resid"], "rtype": s["rtype"]}, "loc": (s["resid"][0], s["resid"][1])})
            continue
        for g in gs:
            counts["census_sites_matched"] = counts.get("census_sites_matched", 0) + 1
            if abs(g["model_pka"] - s["model"]) > 1e-9:
                viol.append({"cls": "census-model-pka", "msg": "%s: %s has model pKa %.2f, table says %.2f" % (
                    name, g["label"], g["model_pka"], s["model"]), "loc": (s["resid"][0], s["resid"][1])})
            if allow_extra or name == "AVR" and not match_atoms:
                # a conformation completed from other models may gain a bridging partner, and the
                # average of a bridged and an unbridged conformation is neither: not judged here
                counts["bridge_clause_not_judged"] = counts.get("bridge_clause_not_judged", 0) + 1
            elif s["bridged"]:
                if g["titratable"] or abs(g["pka"] - 99.99) > 1e-9:
                    viol.append({"cls": "census-bridged-cys", "msg": "%s: bridged %s titratable=%s pKa=%.2f" % (
                        name, g["label"], g["titratable"], g["pka"]), "loc": (s["resid"][0], s["resid"][1])})
                classes.append("bridged-cys")
            else:
                if not g["titratable"] or abs(g["pka"] - 99.99) < 1e-9:
                    viol.append({"cls": "census-not-titrated", "msg": "%s: %s titratable=%s pKa=%.2f although not bridged" % (
                        name, g["label"], g["titratable"], g["pka"]), "loc": (s["resid"][0], s["resid"][1])})
    extra_names = {}
    for k, gs in got.items():
        if k not in exp:
            if allow_extra:
                # a conformation of a multi-model input is completed with atoms (and their sites)
                # of the other models: extra sites are C08's subject - but whatever was copied into one residue
                # position is one residue, not the union of the residues other models have there
                counts["topup_extra_sites"] = counts.get("topup_extra_sites", 0) + 1
                g = gs[0]
                if g["rtype"] not in ("N+", "C-"):
                    extra_names.setdefault((g["aid"][1], g["aid"][2], g["aid"][3]), set()).add(g["aid"][4].strip())
                continue
            g = gs[0]
            viol.append({"cls": "census-spurious", "msg": "%s: reported group %s (%s on atom %s) has no site in the structure%s" % (
                name, g["label"], g["rtype"], g["aid"][5], " (or is not in the titrate-only list)" if titrate_only is not None else ""),
                "detail": {"rtype": g["rtype"]}, "loc": (g["aid"][1], g["aid"][2])})
    for pos_, names_ in extra_names.items():
        if len(names_) > 1:
            viol.append({"cls": "census-spurious", "msg": "%s: the sites completed from other models at residue %r belong to different residues %r - a position holds one residue" % (
                name, pos_, sorted(names_)), "loc": (pos_[0], pos_[1])})
    if check_hetero:
        _check_hetero(name, conf, viol, counts, classes, c, titrate_only)


def _check_hetero(name, conf, viol, counts, classes, c, titrate_only=None):
    for g in conf["groups"]:
        if g["aid"][0] != "hetatm":
            continue
        resid = (g["aid"][1] if g["aid"][1] != "_" else " ", g["aid"][2], g["aid"][3])
        listed = titrate_only is None or resid in titrate_only
        counts["hetero_groups"] = counts.get("hetero_groups", 0) + 1
        resn, aname = g["aid"][4].strip(), g["aid"][5]
        if g["type"] == "ION":
            classes.append("ion:" + resn)
            want = c["ions"].get(resn)
            if want is None or abs(g["charge"] - want) > 1e-9:
                viol.append({"cls": "hetero-ion-charge", "msg": "%s: ion %s charge %r, configured %r" % (name, g["label"], g["charge"], want)})
            continue
        classes.append("ligand:" + g["type"])
        want_q = c["charge"].get(g["type"], 0.0)
        if abs(g["charge"] - want_q) > 1e-9:
            viol.append({"cls": "hetero-charge", "msg": "%s: %s (%s) charge %r, configured %r" % (name, g["label"], g["type"], g["charge"], want_q)})
        want_pk = c["model_pkas"].get(g["rtype"])
        custom = c["custom_model_pkas"].get("%s-%s" % (resn, aname))
        if want_pk is not None and custom is not None:
            want_pk = custom
            classes.append("dna-custom-pka")
        if want_pk is None:
            if g["titratable"] or g["model_pka"] != 0.0:
                viol.append({"cls": "hetero-model-pka", "msg": "%s: %s (%s) titratable with model %.2f but no model pKa is configured" % (
                    name, g["label"], g["type"], g["model_pka"])})
        elif abs(g["model_pka"] - want_pk) > 1e-9 or (g["titratable"] != listed):
            viol.append({"cls": "hetero-model-pka", "msg": "%s: %s (%s) model pKa %.2f titratable=%s, configured %.2f" % (
                name, g["label"], g["type"], g["model_pka"], g["titratable"], want_pk)})


def _check_summary(run, exp_sites, avr, first_conf, viol, counts, classes, remove_penalised):
    parsed = obs.parse_pka_text(run.text)
    try:
        summ = obs.parse_summary(parsed["summary"])
        table = obs.parse_det_rows(parsed["det_rows"])
    except ValueError as e:
        viol.append({"cls": "text-unparsable", "msg": str(e)})
        return
    counts["summaries_checked"] = counts.get("summaries_checked", 0) + 1
    want = {}
    for s in exp_sites:
        want[s["label"]] = want.get(s["label"], 0) + 1
    for what, rows in (("summary", summ), ("determinant table", table)):
        have = {}
        for r in rows:
            have[r["label"]] = have.get(r["label"], 0) + 1
        for lab, n in want.items():
            if have.get(lab, 0) != n:
                # mechanism: is the site a penalised member of a covalently coupled protein pair?
                pen = [g for g in avr["groups"] if g["label"] == lab and g["ctg"] is not None and g["aid"][0] == "atom"]
                if pen and have.get(lab, 0) == n - len(pen) and remove_penalised:
                    partner = pen[0]["ctg_label"]
                    viol.append({"cls": "protein-groups-covalently-coupled",
                                 "msg": "%s lacks %s: the group is treated as covalently coupled to %s (<= 3 bonds apart) and discarded" % (
                                     what, lab, partner), "detail": {"label": lab, "partner": partner}})
                    classes.append("penalised-protein-group")
                else:
                    viol.append({"cls": "summary-count", "msg": "%s shows %s %d time(s), expected %d" % (what, lab, have.get(lab, 0), n), "label": lab})
        # rows that are neither an expected protein site nor a reported hetero group
        het = {}
        for g in avr["groups"]:
            if g["aid"][0] == "hetatm":
                het[g["label"]] = het.get(g["label"], 0) + 1
        for lab, n in have.items():
            if lab not in want and n > het.get(lab, 0):
                viol.append({"cls": "summary-spurious", "msg": "%s row %r is not a site of the structure" % (what, lab), "label": lab})
    # model pKa column and 99.99 of bridged CYS
    bylab = {}
    for s in exp_sites:
        bylab.setdefault(s["label"], []).append(s)
    for r in summ:
        ss = bylab.get(r["label"])
        if not ss:
            continue
        if all(abs(r["model"] - s["model"]) > 0.005 for s in ss):
            viol.append({"cls": "summary-model-pka", "msg": "summary %s model pKa %.2f, table says %.2f" % (r["label"], r["model"], ss[0]["model"])})
        if any(s["bridged"] for s in ss) and len(ss) == 1 and abs(r["pka"] - 99.99) > 0.005:
            viol.append({"cls": "census-bridged-cys", "msg": "summary shows bridged %s with pKa %.2f" % (r["label"], r["pka"])})


def _ions_in_text(text, chains, c):
    """{model: [akey]} of atoms (either record type) whose residue name is a configured ion."""
    from .. import pdbio
    out = {}
    model = 1
    for line in text.splitlines():
        tag = (line[:6] + "      ")[:6]
        if tag == "MODEL ":
            try:
                model = int(line[6:])
            except ValueError:
                pass
            continue
        if tag not in pdbio.ATOM_TAGS or len(line) < 54:
            continue
        r = pdbio.Rec(line)
        if r.resn in c["ignore_residues"] or (chains and r.chain not in chains) or r.elem() == "H":
            continue
        if r.resn.strip() in c["ions"]:
            out.setdefault(model, []).append(r.akey())
    return out
